"""Type descriptors used by contracts (z3-free)."""


# ---- type descriptors -----------------------------------------------------------------------
class T:
    def __init__(self, tag, *args):
        self.tag = tag
        self.args = args

    def __repr__(self):
        return 'T.%s%s' % (self.tag, self.args or '')


T.Int = T('Int')
T.Real = T('Real')
T.Bool = T('Bool')
T.Any = T('Any')
T.NoneT = T('None')
T.Bytes = T('Str', 'b')
T.Text = T('Str', 's')


def TStr(kind):
    return T('Str', kind)


def TOpt(inner):
    return T('Opt', inner)


def TCls(name):
    return T('Cls', name)


def TObj(cls):
    return T('Obj', cls)


def TIo(kind):
    return T('Io', kind)


def TPat(inner):
    """pattern-list element: EOF | TIMEOUT | inner"""
    return T('Pat', inner)


def TSymList(comps, scalar=False):
    """symbolic list; comps = ((name, type), ...)"""
    return T('SymList', tuple(comps), scalar)


def TArray(elem):
    return T('Array', elem)


def TRegex(kind):
    """a compiled regular expression (opaque to the prover; drawn from a small pool concretely)"""
    return T('Any', 'regex', kind)


def TUnion(alts):
    """alts = ((label, type), ...)"""
    return T('Union', tuple(alts))
