"""pyvc symbolic executor: real Python AST -> per-path verification conditions.

One run = one path.  Branches whose condition is not decided by the path condition are
resolved from a decision prefix; the first time a new decision point is met the alternative
prefixes are pushed on the work list (replay-style DFS; fresh names are deterministic, so
every replay of a prefix rebuilds the same terms).
"""
import ast, copy
import z3
from .values import *
from .spec import Val, ClassConst, Opt
from . import spec as S


from .cbase import Unsupported


class Infeasible(Exception):
    """The path condition became unsatisfiable (path pruned)."""


class PyExc(Exception):
    """A Python exception propagating through the symbolic execution."""
    def __init__(self, exc):
        Exception.__init__(self)
        self.exc = exc        # VObj of kind 'exc'


class _Return(Exception):
    def __init__(self, value):
        self.value = value


class _Break(Exception):
    pass


class _Continue(Exception):
    pass


class _PathStop(Exception):
    """End of a path at a loop back-edge (after the invariant was re-established)."""


EXC_PARENTS = {
    'EOF': 'ExceptionPexpect', 'TIMEOUT': 'ExceptionPexpect', 'ExceptionPexpect': 'Exception',
    'ExceptionPxssh': 'ExceptionPexpect',
    'OSError': 'Exception', 'IOError': 'Exception', 'TypeError': 'Exception', 'ValueError': 'Exception',
    'AttributeError': 'Exception', 'IndexError': 'LookupError', 'KeyError': 'LookupError',
    'LookupError': 'Exception', 'KeyboardInterrupt': 'BaseException', 'Exception': 'BaseException',
    'AssertionError': 'Exception', 'RuntimeError': 'Exception', 'NotImplementedError': 'RuntimeError',
    'InterruptedError': 'OSError', 'select.error': 'OSError', 'socket.timeout': 'OSError',
    'PtyProcessError': 'Exception', 'UnicodeDecodeError': 'ValueError', 'UnicodeEncodeError': 'ValueError',
    'BlockingIOError': 'OSError', 'ExceptionFSM': 'Exception', 'StopIteration': 'Exception',
    'asyncio.TimeoutError': 'Exception', 'ZeroDivisionError': 'Exception', 'Empty': 'Exception',
}
IO_CLASSES = {'BytesIO': 'b', 'StringIO': 's'}


def exc_is_a(name, base):
    while name is not None:
        if name == base:
            return True
        name = EXC_PARENTS.get(name)
    return False


class Obligation:
    def __init__(self, oid, hyps, goal, kind, where, entailed=False):
        self.id = oid
        self.hyps = hyps
        self.goal = goal
        self.kind = kind
        self.where = where
        self.entailed = entailed     # already discharged by the incremental path solver
        self.meta = {}


class Ctx:
    """State of one path."""
    def __init__(self, prog, registry, decisions, work, quick_ms=300, callsites=None):
        self.prog = prog
        self.registry = registry
        self.decisions = list(decisions)
        self.dpos = 0
        self.work = work
        self.pc = []
        self.solver = z3.Solver()
        self.solver.set('timeout', quick_ms)
        self.heap = {}
        self.next_oid = 1
        self.counter = {}
        self.obligations = []
        self.trusted = set()
        self.ghost = {}
        self.trace = []
        self.path_tags = []
        self.qfacts = []            # quantified hypotheses available for engine-side instantiation
        self.ax_done = set()
        self.ax_scanned = 0
        self.qhyps = []             # (QForall, guard or None)
        self.qhyps2 = []            # QForall2
        self.qdone = set()
        self.skolem_pairs = []
        self.scanned = set()
        self.reads = {}
        self.reads2 = {}
        self.keep = []
        self.ninst = 0
        self.inst_ids = set()
        self.qsigs = set()
        self.callsites = callsites if callsites is not None else {}
        self.ax_pending = []
        self.idx_terms = {}
        self.pairs = {}
        self.scan_pos = 0
        self.names = {}             # z3 const name -> (term) for model extraction
        self.depth = 0

    # ---- names -------------------------------------------------------------------------
    def fresh_name(self, hint):
        n = self.counter.get(hint, 0)
        self.counter[hint] = n + 1
        return hint if n == 0 else '%s!%d' % (hint, n)

    def fresh(self, ty, hint):
        tag = ty.tag
        if tag == 'Int':
            return VInt(self._const(hint, z3.IntSort()))
        if tag == 'Real':
            return VReal(self._const(hint, z3.RealSort()))
        if tag == 'Bool':
            return VBool(self._const(hint, z3.BoolSort()))
        if tag == 'Str':
            return VStr(self._const(hint, z3.StringSort()), ty.args[0])
        if tag == 'Any':
            return VAny(self._const(hint, Val), notnone=bool(ty.args), kindtag=ty.args[0] if ty.args else None)
        if tag == 'None':
            return VNone()
        if tag == 'Cls':
            return VClass(ty.args[0])
        if tag == 'Opt':
            inner = self.fresh(ty.args[0], hint)
            if isinstance(inner, VAny):
                inner.notnone = True
            return VOpt(self._const(hint + '.isnone', z3.BoolSort()), inner)
        if tag == 'Io':
            return self.new_io(ty.args[0], hint)
        if tag == 'Tuple':
            return VTuple([self.fresh(t, '%s.%d' % (hint, i)) for i, t in enumerate(ty.args)])
        if tag == 'Union':
            alts = [(lab, self.fresh(t, '%s.%s' % (hint, lab))) for lab, t in ty.args[0]]
            tg = self._const(hint + '.tag', z3.IntSort())
            self.assume(z3.And(tg >= 0, tg < len(alts)))
            return VUnion(tg, alts)
        if tag == 'Pat':
            return VPat(self._const(hint + '.iseof', z3.BoolSort()), self._const(hint + '.isto', z3.BoolSort()),
                        self.fresh(ty.args[0], hint + '.val'))
        if tag == 'SymList':
            return self.new_symlist(hint, ty.args[0], ty.args[1] if len(ty.args) > 1 else False)
        if tag == 'Array':
            return VAny(self._const(hint, z3.ArraySort(z3.IntSort(), sort_of(ty.args[0]))))
        raise Unsupported('fresh value of type %r' % ty)

    def _const(self, hint, sort):
        name = self.fresh_name(hint)
        c = z3.Const(name, sort)
        self.names[name] = c
        return c

    # ---- heap --------------------------------------------------------------------------
    def alloc(self, hobj):
        oid = self.next_oid
        self.next_oid += 1
        self.heap[oid] = hobj
        return VObj(oid)

    def new_io(self, kind, hint=None, empty=False):
        if empty:
            content, pos = VStr(z3.StringVal(''), kind), VInt(0)
        else:
            content = VStr(self._const(hint + '.content', z3.StringSort()), kind)
            pos = VInt(self._const(hint + '.pos', z3.IntSort()))
        cls = 'io.BytesIO' if kind == 'b' else 'io.StringIO'
        return self.alloc(HObj(cls, 'io', {'content': content, 'pos': pos}, closed=True))

    def new_symlist(self, name, comps, scalar=False):
        arrs = []
        pat = None
        if scalar and comps[0][1].tag == 'Union':
            alts = comps[0][1].args[0]
            tagarr = z3.Array(self.fresh_name('%s.tag' % name), z3.IntSort(), z3.IntSort())
            arrs = [(tagarr, T.Int)]
            for lab, t in alts:
                if t.tag in ('Cls', 'None'):
                    arrs.append((None, t))
                else:
                    arrs.append((z3.Array(self.fresh_name('%s.%s' % (name, lab)), z3.IntSort(), sort_of(t)), t))
            n = VInt(self._const(name + '.len', z3.IntSort()))
            self.assume(n.t >= 0)
            o = self.alloc(HObj('list', 'symlist', {'len': n, 'comps': arrs, 'scalar': True, 'pat': False,
                                                    'union': [lab for lab, _ in alts]}, closed=True))
            self.assume(S.QForall(z3.IntVal(0), n.t, lambda k: z3.And(z3.Select(tagarr, k) >= 0, z3.Select(tagarr, k) < len(alts))))
            return o
        if scalar and comps[0][1].tag == 'Pat':
            pat = comps[0][1]
            inner = pat.args[0]
            comps = ((comps[0][0] + '.iseof', T.Bool), (comps[0][0] + '.isto', T.Bool), (comps[0][0] + '.val', inner))
        for cn, ty in comps:
            nm = self.fresh_name('%s.%s' % (name, cn))
            arrs.append((z3.Array(nm, z3.IntSort(), sort_of(ty)), ty))
        n = VInt(self._const(name + '.len', z3.IntSort()))
        self.assume(n.t >= 0)
        return self.alloc(HObj('list', 'symlist', {'len': n, 'comps': arrs, 'scalar': scalar, 'pat': pat is not None},
                               closed=True))

    def assume_spec(self, f):
        if isinstance(f, (S.QForall, S.QGuard, S.QForall2)):
            return self.assume(f)
        if isinstance(f, bool):
            return self.assume(f)
        return self.assume(S._b(f))

    def new_exc(self, clsname, args):
        return self.alloc(HObj(clsname, 'exc', {'args': VTuple(args)}, closed=False))

    def obj(self, v):
        if not isinstance(v, VObj):
            raise Unsupported('expected an object, got %r' % (v,))
        return self.heap[v.oid]

    def snapshot(self):
        return {k: h.copy() for k, h in self.heap.items()}

    # ---- path condition -------------------------------------------------------------------
    def assume(self, f):
        if isinstance(f, S.QForall) and getattr(f, 'hyp_alt', None) is not None:
            f = f.hyp_alt
        if isinstance(f, (S.QForall, S.QGuard, S.QForall2)):
            sig = qsig(f)
            if sig is not None:
                if sig in self.qsigs:
                    return          # the same quantified fact is already a hypothesis
                self.qsigs.add(sig)
        if isinstance(f, S.QForall):
            self.qhyps.append((f, None))
            return
        if isinstance(f, S.QGuard):
            self.qhyps.append((f.q, f.guard))
            return
        if isinstance(f, S.QForall2):
            self.qhyps2.append(f)
            return
        if f is True or (z3.is_true(f) if isinstance(f, z3.ExprRef) else False):
            return
        if f is False:
            raise Infeasible()
        self.pc.append(f)
        self.solver.add(f)

    def feasible(self):
        r = self.solver.check()
        return r != z3.unsat

    def entails(self, f):
        if f is True:
            return True
        if f is False:
            return False
        if z3.is_true(f):
            return True
        r = self.solver.check(z3.Not(f))
        return r == z3.unsat

    def decide(self, cond, tag=''):
        """Return the truth value of cond on this path, forking if it is undetermined."""
        if isinstance(cond, bool):
            return cond
        cond = z3.simplify(cond)
        if z3.is_true(cond):
            return True
        if z3.is_false(cond):
            return False
        if self.entails(cond):
            return True
        if self.entails(z3.Not(cond)):
            return False
        k = self.choose(2, tag)
        if k == 0:
            self.assume(cond)
            self.path_tags.append((tag, True))
            return True
        self.assume(z3.Not(cond))
        self.path_tags.append((tag, False))
        return False

    def choose(self, n, tag=''):
        if n == 1:
            return 0
        if self.dpos < len(self.decisions):
            k = self.decisions[self.dpos]
        else:
            k = 0
            prefix = self.decisions[:self.dpos]
            for alt in range(n - 1, 0, -1):
                self.work.append(prefix + [alt])
            self.decisions.append(0)
        self.dpos += 1
        return k

    # ---- obligations ------------------------------------------------------------------------
    def apply_axioms(self, terms):
        """Instances of the assumed contracts of uninterpreted library functions (Find, ...) for
        every application occurring in the obligation or the path condition."""
        for f in terms:
            self.scan(f, 0)
        while self.scan_pos < len(self.pc):
            self.scan(self.pc[self.scan_pos], 0)
            self.scan_pos += 1
        while self.ax_pending:
            t = self.ax_pending.pop()
            key = t.get_id()
            if key in self.ax_done:
                continue
            self.ax_done.add(key)
            for ax in AXIOMS[t.decl().name()](t):
                self.pc.append(ax)
                self.solver.add(ax)
                self.scan(ax, 0, unfold=False)
        self.scan_pos = len(self.pc)

    # ---- engine-side instantiation of quantified hypotheses (DESIGN.md 2.5) ---------------------------
    # E-matching on array reads: a hypothesis  forall k. ... A[k + c] ...  is instantiated with k := u - c
    # for every read A[u] occurring in the obligation, the path condition or earlier instances.
    # Hypotheses without an array trigger fall back to all index terms.  The solver only ever sees
    # quantifier-free formulas; missing instances can only make an obligation undecided, never proved.
    MAXGEN = 6
    MAXINST = 6000

    def scan(self, f, gen, unfold=True):
        if not isinstance(f, z3.ExprRef):
            return
        stack = [f]
        seen = self.scanned
        while stack:
            t = stack.pop()
            tid = t.get_id()
            if tid in seen:
                continue
            seen.add(tid)
            if not z3.is_app(t):
                continue
            k = t.decl().kind()
            n = t.num_args()
            if k == z3.Z3_OP_SELECT:
                a0 = t.arg(0)
                if z3.is_app(a0) and a0.decl().kind() == z3.Z3_OP_SELECT:
                    self.add_read2(a0.arg(0), a0.arg(1), t.arg(1), gen)         # cell[i][j]
                elif not z3.is_array(t):
                    self.add_read(a0, t.arg(1), gen)
            elif k == z3.Z3_OP_UNINTERPRETED and n > 0 and t.decl().name() in AXIOMS:
                if unfold:
                    self.ax_pending.append(t)       # recursive spec functions are unfolded once (fuel 1)
            for i in range(n):
                stack.append(t.arg(i))

    def add_read(self, arr, u, gen):
        u = z3.simplify(u)
        lst = self.reads.setdefault(arr.get_id(), {})
        k = u.sexpr()
        if k not in lst:
            lst[k] = (u, gen)
            self.keep.append(arr)
        self.add_idx(u, gen)
        if z3.is_app(arr) and arr.decl().kind() == z3.Z3_OP_STORE:
            self.add_read(arr.arg(0), u, gen)       # select-over-store: the read also reaches the base array

    def add_read2(self, arr, i, j, gen):
        i, j = z3.simplify(i), z3.simplify(j)
        lst = self.reads2.setdefault(arr.get_id(), {})
        k = (i.sexpr(), j.sexpr())
        if k not in lst:
            lst[k] = ((i, j), gen)
            self.keep.append(arr)
        self.add_pair(i, j, gen)

    def add_idx(self, t, gen):
        t = z3.simplify(t) if isinstance(t, z3.ExprRef) else z3.IntVal(t)
        if t.sort() != z3.IntSort():
            return
        k = t.sexpr()
        if k not in self.idx_terms:
            self.idx_terms[k] = (t, gen)

    def add_pair(self, i, j, gen):
        i, j = z3.simplify(i), z3.simplify(j)
        k = (i.sexpr(), j.sexpr())
        if k not in self.pairs:
            self.pairs[k] = ((i, j), gen)

    def _add_instance(self, f, gen):
        if isinstance(f, bool):
            return
        fid = f.get_id()
        if fid in self.inst_ids:
            return
        self.inst_ids.add(fid)      # f stays alive in self.pc, so the id is not reused
        self.ninst += 1
        self.pc.append(f)
        self.solver.add(f)
        self.scan(f, gen)

    def triggers1(self, q):
        """[(array term, offset c)] such that the body reads array[k + c]; [] = no array trigger."""
        tr = getattr(q, '_trig', None)
        if tr is not None:
            return tr
        K, K2 = _K[0], _K[1]
        tr = []
        try:
            body = q.instance(K)
            while isinstance(body, S.QGuard):
                inner = body.q.instance(K2)
                body = z3.And(S._b(body.guard), S._b(inner.guard) if isinstance(inner, S.QGuard) else S._b(inner))
            seen = set()
            for t in subterms(body):
                if z3.is_app(t) and t.decl().kind() == z3.Z3_OP_SELECT and not z3.is_array(t):
                    a0, idx = t.arg(0), t.arg(1)
                    if z3.is_app(a0) and a0.decl().kind() == z3.Z3_OP_SELECT:
                        continue
                    if mentions(idx, K) and not mentions(a0, K) and not mentions(idx, K2):
                        c = z3.simplify(idx - K)
                        if not mentions(c, K):
                            key = (a0.get_id(), c.sexpr())
                            if key not in seen:
                                seen.add(key)
                                tr.append((a0, c))
                                self.keep.append(a0)
        except Exception:
            tr = []
        q._trig = tr
        return tr

    def triggers2(self, q):
        tr = getattr(q, '_trig', None)
        if tr is not None:
            return tr
        A, B = _K[2], _K[3]
        tr = []
        try:
            body = q.fn(A, B)
            seen = set()
            for t in subterms(body):
                if z3.is_app(t) and t.decl().kind() == z3.Z3_OP_SELECT:
                    a0 = t.arg(0)
                    if z3.is_app(a0) and a0.decl().kind() == z3.Z3_OP_SELECT:
                        arr, i, j = a0.arg(0), a0.arg(1), t.arg(1)
                        if mentions(i, A) and mentions(j, B) and not mentions(i, B) and not mentions(j, A) \
                                and not mentions(arr, A):
                            ci, cj = z3.simplify(i - A), z3.simplify(j - B)
                            if not mentions(ci, A) and not mentions(cj, B):
                                key = (arr.get_id(), ci.sexpr(), cj.sexpr())
                                if key not in seen:
                                    seen.add(key)
                                    tr.append((arr, ci, cj))
                                    self.keep.append(arr)
        except Exception:
            tr = []
        q._trig = tr
        return tr

    def instantiate(self, goal_terms, rounds=None):
        for g in goal_terms:
            self.scan(g, 0)
        while self.scan_pos < len(self.pc):
            self.scan(self.pc[self.scan_pos], 0)
            self.scan_pos += 1
        for _ in range(self.MAXGEN + 2):
            new = 0
            i = 0
            while i < len(self.qhyps) and self.ninst < self.MAXINST:
                q, guard = self.qhyps[i]
                i += 1
                for h in q.hints:
                    self.add_idx(h, 0)
                tr = self.triggers1(q)
                cands = []
                if tr:
                    for (arr, c) in tr:
                        for key, (u, gen) in list(self.reads.get(arr.get_id(), {}).items()):
                            cands.append((z3.simplify(u - c), gen))
                    for h in q.hints:
                        cands.append((h if isinstance(h, z3.ExprRef) else z3.IntVal(h), 0))
                else:
                    cands = list(self.idx_terms.values())
                for (t, gen) in cands:
                    if gen > self.MAXGEN:
                        continue
                    dk = (id(q), t.sexpr())
                    if dk in self.qdone:
                        continue
                    self.qdone.add(dk)
                    inst = q.instance(t)
                    new += 1
                    if isinstance(inst, S.QGuard):
                        g2 = inst.guard if guard is None else z3.And(guard, inst.guard)
                        self.qhyps.append((inst.q, g2))
                    else:
                        f = inst if guard is None else z3.Implies(guard, S._b(inst))
                        self._add_instance(f, gen + 1)
            for q in list(self.qhyps2):
                if self.ninst >= self.MAXINST:
                    break
                tr = self.triggers2(q)
                cands = []
                if tr:
                    for (arr, ci, cj) in tr:
                        for key, ((u, w), gen) in list(self.reads2.get(arr.get_id(), {}).items()):
                            cands.append((z3.simplify(u - ci), z3.simplify(w - cj), gen))
                    for h in q.hints:
                        cands.append((h[0], h[1], 0))
                else:
                    cands = [(a_, b_, gen) for ((a_, b_), gen) in self.pairs.values()]
                for (a_, b_, gen) in cands:
                    if gen > self.MAXGEN:
                        continue
                    dk = (id(q), a_.sexpr(), b_.sexpr())
                    if dk in self.qdone:
                        continue
                    self.qdone.add(dk)
                    new += 1
                    self._add_instance(q.fn(a_, b_), gen + 1)
            self.scan_pos = len(self.pc)
            if not new:
                break

    def oblige(self, oid, goal, kind, where=''):
        skolems = []
        if isinstance(goal, S.QForall2):
            a, b = self._const('skr', z3.IntSort()), self._const('skc', z3.IntSort())
            self.add_pair(a, b, 0)
            self.add_idx(a, 0)
            self.add_idx(b, 0)
            skolems += [a, b]
            goal = S._b(goal.fn(a, b))
        if isinstance(goal, S.QForall):
            guards = []
            while isinstance(goal, S.QForall):
                k = self._const('sk', z3.IntSort())
                skolems.append(k)
                self.add_idx(k, 0)
                guards.append(z3.And(goal.lo <= k, k < goal.hi))
                goal = goal.fn(k)
            goal = z3.Implies(z3.And(*guards), S._b(goal))
        if isinstance(goal, z3.ExprRef):
            self.apply_axioms([goal])
        if (self.qhyps or self.qhyps2) and isinstance(goal, z3.ExprRef):
            self.instantiate([goal] + skolems)
            self.apply_axioms([goal])
        if goal is True:
            goal = z3.BoolVal(True)
        if goal is False:
            goal = z3.BoolVal(False)
        ent = self.entails(goal)
        ob = Obligation(oid, list(self.pc), goal, kind, where, entailed=ent)
        ob.meta['tags'] = list(self.path_tags)
        self.obligations.append(ob)
        # continue under the asserted fact (each obligation is checked on its own)
        self.assume(goal)
        return ob

    def safe(self, cond, what, where=''):
        if cond is True:
            return
        self.oblige('safe.' + what, cond, 'safe', where)

    def trust(self, msg):
        self.trusted.add(msg)


# ---------------------------------------------------------------------------------------------
# views: what contracts see
# ---------------------------------------------------------------------------------------------
class ObjView:
    def __init__(self, ctx, heap, oid):
        object.__setattr__(self, '_ctx', ctx)
        object.__setattr__(self, '_heap', heap)
        object.__setattr__(self, '_oid', oid)

    def __getattr__(self, name):
        h = self._heap[self._oid]
        if name == '_cls':
            return h.cls
        if name not in h.fields:
            if name == '_defined':
                return lambda f: f in h.fields
            raise AttributeError('spec view: object #%d (%s) has no field %s' % (self._oid, h.cls, name))
        return to_spec(self._ctx, self._heap, h.fields[name])

    def has(self, name):
        return name in self._heap[self._oid].fields

    def __eq__(self, other):
        return isinstance(other, ObjView) and other._oid == self._oid

    def __hash__(self):
        return hash(self._oid)


class SymListView:
    def __init__(self, ctx, heap, oid):
        self._ctx, self._heap, self._oid = ctx, heap, oid

    @property
    def len(self):
        return self._heap[self._oid].fields['len'].t

    def get(self, i):
        h = self._heap[self._oid]
        return to_spec(self._ctx, self._heap, symlist_elem(h, i))


class ConcListView:
    """A list whose length is concrete on this path."""
    def __init__(self, ctx, heap, oid):
        self._ctx, self._heap, self._oid = ctx, heap, oid

    @property
    def len(self):
        items = self._heap[self._oid].fields['items']
        hid = [x for x in items if isinstance(x, VHidden)]
        if hid:
            return z3.simplify(len(items) - len(hid) + sum(x.count for x in hid))
        return len(items)

    def items_spec(self):
        return [to_spec(self._ctx, self._heap, x) for x in self._heap[self._oid].fields['items']]

    def last(self, k=1):
        """k-th element from the end (1 = last)"""
        return to_spec(self._ctx, self._heap, self._heap[self._oid].fields['items'][-k])

    def get(self, i):
        items = self._heap[self._oid].fields['items']
        if isinstance(i, int):
            return to_spec(self._ctx, self._heap, items[i])
        i = z3.simplify(i)
        if z3.is_int_value(i):
            return to_spec(self._ctx, self._heap, items[i.as_long()])
        # symbolic index: describe the element as a pattern-list element (marker tests / text payload)
        iseof = [i == k for k, x in enumerate(items) if isinstance(x, VClass) and x.name == 'EOF']
        isto = [i == k for k, x in enumerate(items) if isinstance(x, VClass) and x.name == 'TIMEOUT']
        texts = [(k, x) for k, x in enumerate(items) if hasattr(x, 't')]
        val = None
        if texts:
            val = texts[-1][1].t
            for k, x in reversed(texts[:-1]):
                if x.t.sort() == val.sort():
                    val = z3.If(i == k, x.t, val)
        return S.Pat(z3.Or(*iseof) if iseof else z3.BoolVal(False),
                     z3.Or(*isto) if isto else z3.BoolVal(False), val)


def to_spec(ctx, heap, v):
    if isinstance(v, (VInt, VBool, VReal, VStr, VAny)):
        return v.t
    if isinstance(v, VNone):
        return None
    if isinstance(v, VClass):
        return ClassConst(v.name)
    if isinstance(v, VTuple):
        return tuple(to_spec(ctx, heap, x) for x in v.items)
    if isinstance(v, VOpt):
        return Opt(v.isnone, to_spec(ctx, heap, v.inner))
    if isinstance(v, VUnion):
        return S.Union(v.tag, [(lab, to_spec(ctx, heap, x)) for lab, x in v.alts])
    if isinstance(v, VPat):
        return S.Pat(v.iseof, v.isto, to_spec(ctx, heap, v.payload))
    if isinstance(v, VObj):
        h = heap[v.oid]
        if h.kind == 'symlist':
            return SymListView(ctx, heap, v.oid)
        if h.kind == 'list':
            return ConcListView(ctx, heap, v.oid)
        if h.kind == 'grid':
            from .grid import GridView
            return GridView(ctx, heap, v.oid)
        if h.kind == 'symdict':
            from .symdict import SymDictView
            return SymDictView(h)
        return ObjView(ctx, heap, v.oid)
    if isinstance(v, (VFunc, VModule)):
        return v
    raise Unsupported('no spec view of %r' % (v,))


class NS:
    """A bag of named spec values (args, locals)."""
    def __init__(self, d):
        self.__dict__.update(d)

    def __getattr__(self, name):
        raise AttributeError('spec view: no such name %s' % name)


_K = [z3.Int('__qk%d' % i) for i in range(4)]
_KEEP = []          # keeps signature ASTs alive: z3 ids are reused after garbage collection


def qsig(f, depth=0):
    """Structural signature of a quantified fact: its body at canonical constants (hash-consed AST id)."""
    try:
        if isinstance(f, S.QForall2):
            b = f.fn(_K[2], _K[3])
            _KEEP.append(b)
            return ('q2', b.get_id()) if isinstance(b, z3.ExprRef) else None
        if isinstance(f, S.QGuard):
            inner = qsig(f.q, depth)
            _KEEP.append(f.guard)
            g = f.guard.get_id() if isinstance(f.guard, z3.ExprRef) else repr(f.guard)
            return None if inner is None else ('g', g, inner)
        if isinstance(f, S.QForall) and depth < 2:
            inst = f.instance(_K[depth])
            _KEEP.append(inst)
            if isinstance(inst, S.QGuard):
                inner = qsig(inst, depth + 1)
                return None if inner is None else ('q1', inner)
            return ('q1', inst.get_id()) if isinstance(inst, z3.ExprRef) else None
    except Exception:
        return None
    return None


def subterms(f):
    stack, seen = [f], set()
    while stack:
        t = stack.pop()
        tid = t.get_id()
        if tid in seen:
            continue
        seen.add(tid)
        yield t
        if z3.is_app(t):
            stack.extend(t.children())


def mentions(t, k):
    kid = k.get_id()
    for x in subterms(t):
        if x.get_id() == kid:
            return True
    return False


def _find_axioms(t):
    buf, sub, st = t.arg(0), t.arg(1), t.arg(2)
    L, m = z3.Length(buf), z3.Length(sub)
    return [z3.Or(t == -1, z3.And(t >= st, t >= 0, t + m <= L, z3.SubString(buf, t, m) == sub))]


def _refind_axioms(t):
    r, buf, pos = t.arg(0), t.arg(1), t.arg(2)
    return [z3.Or(t == -1, z3.And(t >= pos, t >= 0, t <= z3.Length(buf)))]


def _rematch_axioms(t):
    r, buf, pos = t.arg(0), t.arg(1), t.arg(2)
    f = S.ReFind(r, buf, pos)
    return [S.MStart(t) == f, z3.Implies(f >= 0, z3.And(S.MStart(t) <= S.MEnd(t), S.MEnd(t) <= z3.Length(buf)))] \
        + _refind_axioms(f)


def _isdigits_axioms(t):
    a = t.arg(0)
    out = [z3.Implies(t, S.IntOf(a) >= 0)]
    if z3.is_app(a) and a.decl().kind() == z3.Z3_OP_SEQ_CONCAT:
        parts = a.children()
        out.append(z3.Implies(z3.And(*[S.IsDigits(p) for p in parts]), t))
    return out


def _rowseg_axioms(t):
    """RowSeg(cell, i, a, b): '' when b < a; otherwise RowSeg(.., b-1) ++ cell[i][b]; length b-a+1"""
    cell, i, a, b = t.arg(0), t.arg(1), t.arg(2), t.arg(3)
    prev = t.decl()(cell, i, a, b - 1)
    return [z3.Implies(b < a, t == z3.StringVal('')),
            z3.Implies(b >= a, t == z3.Concat(prev, z3.Select(z3.Select(cell, i), b))),
            z3.Length(t) >= 0]


def _joinlist_axioms(t):
    """JoinList(sep, arr, n): '' for n <= 0; JoinList(.., n-1) ++ [sep] ++ arr[n-1] otherwise;
    writing at an index >= n does not change it (frame)"""
    sep, arr, n = t.arg(0), t.arg(1), t.arg(2)
    prev = t.decl()(sep, arr, n - 1)
    out = [z3.Implies(n <= 0, t == z3.StringVal('')),
           z3.Implies(n == 1, t == z3.Select(arr, 0)),
           z3.Implies(n > 1, t == z3.Concat(prev, sep, z3.Select(arr, n - 1)))]
    if z3.is_app(arr) and arr.decl().kind() == z3.Z3_OP_STORE:
        base, i = arr.arg(0), arr.arg(1)
        out.append(z3.Implies(i >= n, t == t.decl()(sep, base, n)))
        out.append(z3.Implies(i >= n - 1, prev == t.decl()(sep, base, n - 1)))       # frame for the unfolded prefix
    return out


def _recompile_axioms(t):
    return [S.RePatText(t) == t.arg(0), S.RePatIsBytes(t) == t.arg(1), S.ReFlags(t) == t.arg(2)]


AXIOMS = {'ReCompile': _recompile_axioms, 'JoinList': _joinlist_axioms, 'RowSeg': _rowseg_axioms, 'IsDigits': _isdigits_axioms, 'Find': _find_axioms, 'RFind': _find_axioms, 'ReFind': _refind_axioms, 'ReMatch': _rematch_axioms}


def collect_apps(f, names, out, seen):
    if not isinstance(f, z3.ExprRef):
        return
    stack = [f]
    n = 0
    while stack and n < 6000:
        t = stack.pop()
        n += 1
        tid = t.get_id()
        if tid in seen:
            continue
        seen.add(tid)
        if z3.is_app(t):
            if t.decl().kind() == z3.Z3_OP_UNINTERPRETED and t.num_args() > 0 and t.decl().name() in names:
                out.append(t)
            stack.extend(t.children())


def collect_pairs(f, addp):
    """(i, j) of every two-dimensional array read a[i, j] in f."""
    if not isinstance(f, z3.ExprRef):
        return
    stack = [f]
    seen = set()
    n = 0
    while stack and n < 6000:
        t = stack.pop()
        n += 1
        tid = t.get_id()
        if tid in seen:
            continue
        seen.add(tid)
        if z3.is_app(t):
            if t.decl().kind() == z3.Z3_OP_SELECT and t.num_args() == 3:
                addp(t.arg(1), t.arg(2))
            stack.extend(t.children())


def collect_index_terms(f, add, depth=0):
    """Index-like integer terms of a formula: array read indices, substr offsets, seq.nth."""
    if not isinstance(f, z3.ExprRef):
        return
    stack = [f]
    seen = set()
    n = 0
    while stack and n < 4000:
        t = stack.pop()
        n += 1
        tid = t.get_id()
        if tid in seen:
            continue
        seen.add(tid)
        if z3.is_app(t):
            k = t.decl().kind()
            if k == z3.Z3_OP_SELECT:
                add(t.arg(1))
                if t.num_args() == 3:
                    add(t.arg(2))
            elif k == z3.Z3_OP_UNINTERPRETED and t.num_args() == 0 and t.sort() == z3.IntSort() and t.decl().name().startswith('sk'):
                add(t)
            stack.extend(t.children())


def symlist_elem(h, i):
    """Element i of a symbolic list of tuples/scalars."""
    comps = h.fields['comps']       # list of (z3 Array, type)
    if h.fields.get('union'):
        tg = z3.Select(comps[0][0], i)
        alts = []
        for lab, (arr, ty) in zip(h.fields['union'], comps[1:]):
            if arr is None:
                alts.append((lab, VClass(ty.args[0]) if ty.tag == 'Cls' else VNone()))
            else:
                val = _wrap(z3.Select(arr, i), ty)
                alts.append((lab, val))
        return VUnion(tg, alts)
    vals = []
    for arr, ty in comps:
        t = z3.Select(arr, i)
        vals.append(_wrap(t, ty))
    if h.fields.get('pat'):
        return VPat(vals[0].t, vals[1].t, vals[2])
    if h.fields.get('scalar'):
        return vals[0]
    return VTuple(vals)


def _wrap(t, ty):
    if ty.tag == 'Int':
        return VInt(t)
    if ty.tag == 'Str':
        return VStr(t, ty.args[0])
    if ty.tag == 'Bool':
        return VBool(t)
    if ty.tag == 'Any':
        return VAny(t, notnone=bool(ty.args), kindtag=ty.args[0] if ty.args else None)
    if ty.tag == 'Real':
        return VReal(t)
    raise Unsupported('symlist component type %r' % ty)


def sort_of(ty):
    if ty.tag == 'Array':
        return z3.ArraySort(z3.IntSort(), sort_of(ty.args[0]))
    return {'Int': z3.IntSort(), 'Str': z3.StringSort(), 'Bool': z3.BoolSort(), 'Any': Val,
            'Real': z3.RealSort()}[ty.tag]
