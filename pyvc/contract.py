"""Contracts, registry, symbolic pre-state builder and the per-function verification driver."""
import os, time, traceback
import z3
from .values import *
from .engine import *
from .engine import _Return, _PathStop, _Break, _Continue
from .interp import Interp, Frame, StateView, ContractView, LocalsView
from . import spec as S
from .types import T


from .cbase import *
from .cbase import _as_tuple


# ---------------------------------------------------------------------------------------------
# symbolic builder
# ---------------------------------------------------------------------------------------------
class CaseSpace:
    """Eager case splits declared by shape() (optional fields, modes): DFS over dimensions."""
    def __init__(self):
        self.assign = {}
        self.seen = []

    def pick(self, name, options):
        if name not in self.assign:
            self.assign[name] = 0
        self.seen.append((name, list(options)))
        return options[self.assign[name]]


def enumerate_cases(shape_fn):
    """All assignments of the case dimensions met by shape_fn (dimensions may depend on choices)."""
    out = []
    work = [{}]
    seen_keys = set()
    while work:
        a = work.pop()
        cs = CaseSpace()
        cs.assign = dict(a)
        shape_fn(cs)
        full = {n: cs.assign[n] for n, _ in cs.seen}
        key = tuple(sorted(full.items()))
        if key in seen_keys:
            continue
        seen_keys.add(key)
        labels = {n: opts[full[n]] if not isinstance(opts[full[n]], tuple) else opts[full[n]][0] for n, opts in cs.seen}
        out.append((full, labels))
        for n, opts in cs.seen:
            if n not in a:
                for k in range(1, len(opts)):
                    b = dict(full)
                    # only dims up to and including n are fixed; later ones restart at 0
                    idx = [m for m, _ in cs.seen].index(n)
                    b = {m: full[m] for m, _ in cs.seen[:idx]}
                    b[n] = k
                    work.append(b)
    # de-duplicate
    uniq, keys = [], set()
    for full, labels in out:
        k = tuple(sorted(full.items()))
        if k not in keys:
            keys.add(k)
            uniq.append((full, labels))
    return uniq


class SymBuilder:
    def __init__(self, ctx, cases):
        self.ctx = ctx
        self.cases = cases
        self.leaves = {}       # name -> (kind, value) for model extraction / replay
        self.objects = {}

    # case dimensions
    def choice(self, name, options):
        return self.cases.pick(name, options)

    # leaves
    def int(self, name):
        v = VInt(self.ctx._const(name, z3.IntSort()))
        self.leaves[name] = ('int', v)
        return v

    def real(self, name):
        v = VReal(self.ctx._const(name, z3.RealSort()))
        self.leaves[name] = ('real', v)
        return v

    def bool(self, name):
        v = VBool(self.ctx._const(name, z3.BoolSort()))
        self.leaves[name] = ('bool', v)
        return v

    def str(self, name, kind):
        v = VStr(self.ctx._const(name, z3.StringSort()), kind)
        self.leaves[name] = ('str', v)
        return v

    def any(self, name):
        v = VAny(self.ctx._const(name, Val))
        self.leaves[name] = ('any', v)
        return v

    def none(self):
        return VNone()

    def cls(self, name):
        return VClass(name)

    def const(self, py):
        return Interp(self.ctx).const(py)

    def opt(self, name, mk):
        """Optional value, split eagerly: None | mk()."""
        if self.choice(name + '?', ['none', 'some']) == 'none':
            return VNone()
        return mk()

    def tuple(self, *items):
        return VTuple(items)

    def sopt(self, name, mk):
        """Optional value kept symbolic (no case split): (is None?, value)"""
        isnone = self.ctx._const(name + '.isnone', z3.BoolSort())
        self.leaves[name + '.isnone'] = ('bool', VBool(isnone))
        return VOpt(isnone, mk())

    def io(self, name, kind):
        o = self.ctx.new_io(kind, name)
        h = self.ctx.heap[o.oid]
        self.leaves[name + '.content'] = ('str', h.fields['content'])
        self.leaves[name + '.pos'] = ('int', h.fields['pos'])
        self.objects[name] = o
        return o

    def obj(self, _name, _cls, /, sealed=True, **fields):
        o = self.ctx.alloc(HObj(_cls, 'obj', dict(fields), closed=sealed))
        self.objects[_name] = o
        return o

    def list(self, items):
        return self.ctx.alloc(HObj('list', 'list', {'items': list(items)}, closed=True))

    def symlist(self, name, comps, scalar=False):
        """Symbolic list: comps = [(component name, type)]"""
        o = self.ctx.new_symlist(name, tuple(comps), scalar)
        self.leaves[name] = ('symlist', o)
        self.objects[name] = o
        return o

    def func(self, v):
        return v

    def regex(self, name):
        """a compiled regular expression of either string type with flags of its own"""
        v = VAny(self.ctx._const(name, Val), notnone=True, kindtag='regex')
        self.leaves[name] = ('any', v)
        return v

    def union(self, name, alts):
        """one object of several possible kinds: alts = ((label, type), ...)"""
        u = self.ctx.fresh(T('Union', tuple(alts)), name)
        self.leaves[name + '.tag'] = ('int', VInt(u.tag))
        for lab, x in u.alts:
            if isinstance(x, VStr):
                self.leaves['%s.%s' % (name, lab)] = ('str', x)
            elif isinstance(x, VInt):
                self.leaves['%s.%s' % (name, lab)] = ('int', x)
        return u

    def dict(self, keys, vals):
        return self.ctx.alloc(HObj('dict', 'dict', {'keys': list(keys), 'vals': list(vals)}, closed=True))

    def symdict(self, name, arity):
        o = self.ctx.alloc(HObj('dict', 'symdict', {'name': name, 'arity': arity}, closed=True))
        self.objects[name] = o
        return o

    def hidden(self, name):
        """`n >= 0` list elements the function never touches"""
        n = self.ctx._const(name, z3.IntSort())
        self.ctx.assume(n >= 0)
        self.leaves[name] = ('int', VInt(n))
        return VHidden(n)

    def grid(self, name, rows, cols):
        from .grid import new_grid
        g = new_grid(self.ctx, name)
        self.objects[name] = g
        self.leaves[name] = ('grid', g)
        return g

    def ghost(self, name, value):
        """Ghost state (spec-level value: python constant or z3 term)."""
        if isinstance(value, V):
            value = to_spec(self.ctx, self.ctx.heap, value)
        self.ctx.ghost[name] = value
        return value


# ---------------------------------------------------------------------------------------------
# verification of one function against its contract
# ---------------------------------------------------------------------------------------------
class PathResult:
    def __init__(self):
        self.obligations = []
        self.status = 'ok'         # ok | unsupported | infeasible
        self.detail = ''
        self.exit = None
        self.tags = []
        self.trusted = set()
        self.leaves = {}


def run_function_paths(prog, reg, con, case_assign, max_paths=400, quick_ms=300):
    """Symbolically execute the real function body along every path; return PathResults."""
    fi = prog.func(con.name)
    results = []
    reg.context = getattr(con, 'context', None)
    if fi is None:
        pr = PathResult()
        pr.status = 'unsupported'
        pr.detail = 'function %s not found in the repository' % con.name
        return [pr]
    work = [[]]
    npaths = 0
    callsites = {}
    while work:
        dec = work.pop()
        npaths += 1
        if npaths > max_paths:
            pr = PathResult()
            pr.status = 'unsupported'
            pr.detail = 'path budget (%d) exhausted' % max_paths
            results.append(pr)
            break
        ctx = Ctx(prog, reg, dec, work, quick_ms=quick_ms, callsites=callsites)
        pr = PathResult()
        I = Interp(ctx)
        try:
            cs = CaseSpace()
            cs.assign = dict(case_assign)
            b = SymBuilder(ctx, cs)
            args = con.shape(b)
            pr.leaves = b.leaves
            fr = Frame(fi, fi.module, fi.cls, dict(args), con)
            if 'self' in args and isinstance(args['self'], VObj):
                fr.recv_cls = ctx.heap[args['self'].oid].cls
            snap0 = ctx.snapshot()
            pre = ContractView(ctx, snap0, snap0, args, dict(ctx.ghost))
            pre.g = dict(ctx.ghost)
            for cid, f in con.requires(pre):
                ctx.assume_spec(f)
            if not ctx.feasible():
                pr.status = 'infeasible'
                pr.detail = 'requires unsatisfiable in this case'
                results.append(pr)
                continue
            fr.pre_heap = ctx.snapshot()
            fr.pre_args = dict(args)
            fr.pre_ghost = dict(ctx.ghost)
            result, raised, excv = VNone(), None, None
            # bind defaults of parameters not supplied by shape
            bound = I.bind_params(fi.node, [], {k: v for k, v in args.items()}, fr, fi.qual)
            fr.locals = dict(bound)
            fr.pre_args = dict(bound)
            try:
                I.exec_block(fi.node.body, fr)
            except _Return as r:
                result = r.value
            except PyExc as pe:
                raised = ctx.heap[pe.exc.oid].cls
                excv = pe.exc
            except _PathStop:
                pr.exit = 'loop-back-edge'
                pr.obligations = ctx.obligations
                pr.tags = ctx.path_tags
                pr.trusted = ctx.trusted
                pr.ctx = ctx
                results.append(pr)
                continue
            if not ctx.feasible():
                # the path was cut (typically right after an obligation that is plainly false): keep what was
                # generated up to that point, evaluate no postcondition on an impossible state
                pr.status = 'ok' if ctx.obligations else 'infeasible'
                pr.detail = 'path condition unsatisfiable at exit'
                pr.exit = 'cut'
                pr.obligations = ctx.obligations
                pr.tags = ctx.path_tags
                pr.trusted = ctx.trusted
                pr.ctx = ctx
                results.append(pr)
                continue
            snap1 = ctx.snapshot()
            post = ContractView(ctx, fr.pre_heap, snap1, fr.pre_args, fr.pre_ghost,
                                result=to_spec(ctx, snap1, result), raised=raised, result_v=result, exc=excv)
            post.g = dict(ctx.ghost)
            post.l = LocalsView(ctx, snap1, dict(fr.locals))
            if raised is not None and con.exits is not None and raised not in con.exits(post):
                ctx.oblige('post.raises-only-declared', False, 'post', 'raised ' + raised)
            if hasattr(con, 'lemmas'):
                # instances of lemmas that are proved separately on every run (never free-standing assumptions)
                for cid, f in con.lemmas(post):
                    ctx.assume_spec(f)
                    ctx.trust('lemma %s: instantiated here, proved from the definition of Find by the check itself' % cid)
            for cid, f in con.ensures(post):
                ctx.oblige('post.' + cid, f, 'post', 'exit: %s' % (raised or 'return'))
            pr.exit = raised or 'return'
            pr.obligations = ctx.obligations
            pr.tags = ctx.path_tags
            pr.trusted = ctx.trusted
            pr.ctx = ctx
        except Infeasible:
            # the path ended (e.g. right after an obligation that is plainly false): keep what was generated
            pr.status = 'ok' if ctx.obligations else 'infeasible'
            pr.exit = 'cut'
            pr.obligations = ctx.obligations
            pr.tags = ctx.path_tags
            pr.trusted = ctx.trusted
            pr.ctx = ctx
        except Unsupported as u:
            pr.status = 'unsupported'
            pr.detail = str(u)
            pr.obligations = ctx.obligations
            pr.tags = ctx.path_tags
            pr.ctx = ctx
        except (_Break, _Continue):
            pr.status = 'unsupported'
            pr.detail = 'break/continue outside loop'
        except (TypeError, AttributeError, KeyError, IndexError, ValueError, z3.Z3Exception) as e:
            # a contract clause (or a model of a library call) could not be evaluated on this path of the
            # current source: the path is undecided, never a violation and never a crash of the whole check
            import traceback
            tb = traceback.extract_tb(e.__traceback__)
            where = '%s:%d' % (tb[-1].filename.split('/')[-1], tb[-1].lineno) if tb else '?'
            if os.environ.get('VERIF_TRACE'):
                traceback.print_exc()
            pr.status = 'unsupported'
            pr.detail = 'not evaluable on this path (%s: %s at %s)' % (type(e).__name__, str(e)[:120], where)
            pr.obligations = ctx.obligations
            pr.tags = ctx.path_tags
            pr.ctx = ctx
        results.append(pr)
    # vacuity guard: a call site at which every outcome of the callee contract contradicts the caller state
    for site, (tried, ok) in callsites.items():
        if tried and not ok:
            pr = PathResult()
            pr.status = 'unsupported'
            pr.detail = 'vacuity: every outcome of the contract is infeasible at call site %s' % site
            results.append(pr)
    if not any(p.status == 'ok' for p in results) and not any('requires unsatisfiable' in (p.detail or '') for p in results):
        pr = PathResult()
        pr.status = 'unsupported'
        pr.detail = 'vacuity: no feasible path reaches an exit of %s in this case' % con.name
        results.append(pr)
    return results
