"""Contract base classes and the registry (z3-free: importable by the concrete harness)."""
from .types import *


class Unsupported(Exception):
    """A construct outside the accepted subset: the function's obligations become undecided."""


class Outcome:
    def __init__(self, kind, ty=None, exc=None, label=None, make=None):
        self.kind = kind            # 'ret' | 'raise'
        self.ty = ty
        self.exc = exc
        self.label = label or (exc if kind == 'raise' else 'ret')
        self.make = make


def Ret(ty, label=None, make=None):
    return Outcome('ret', ty=ty, label=label, make=make)


def Raises(exc, label=None):
    return Outcome('raise', exc=exc, label=label)


class Contract:
    """Base class of sidecar contracts.

    name      qualified name of the function in /repo
    receiver  concrete receiver class(es) this contract is for (None = any)
    shape     builds the symbolic (or concrete) pre-state; returns dict param -> value
    requires  [(id, formula)] over view v (v.a.<param>, v.g ghost)
    outcomes  the ways the function may exit, as seen by callers
    modifies  [(objview, field, type)] locations a call may change
    ensures   [(id, formula)] over v.old / v.new / v.result / v.raised
    loops     {ordinal: LoopSpec}
    """
    name = None
    receiver = None
    inline = False
    assumed = False          # True for contracts on dependencies (never verified, listed as trusted)
    loops = {}
    props = ()               # property ids this contract carries clauses for
    exits = None             # allowed exception classes at exit (None = unconstrained)

    def shape(self, b):
        raise NotImplementedError

    def requires(self, v):
        return []

    def outcomes(self, v):
        return [Ret(T.NoneT)]

    def modifies(self, v, out):
        return []

    def effects(self, v):
        """Ghost effects of a call, applied when the contract stands in for the callee
        (v.g is the live ghost state, v.result / v.raised the drawn outcome, v.draw fresh values)."""

    def ensures(self, v):
        return []

    def bind(self, args, kwargs, interp):
        """Bind call arguments for interface / external contracts (params attribute)."""
        params = list(getattr(self, 'params', []))
        bound = {}
        for p, a in zip(params, args):
            bound[p] = a
        for k, v in kwargs.items():
            bound[k] = v
        defaults = getattr(self, 'defaults', {})
        for p in params:
            if p not in bound:
                if p in defaults:
                    bound[p] = interp.const(defaults[p])
                else:
                    raise Unsupported('missing argument %s in call to %s' % (p, self.name))
        if len(args) > len(params):
            bound['_extra'] = interp.tuple_of(args[len(params):])
        return bound


class LoopSpec:
    vars = {}
    ghost = {}

    def modifies(self, v):
        return []

    def invariant(self, v):
        return []


class Registry:
    def __init__(self):
        self.contracts = {}        # qualified name -> [Contract]
        self.ifaces = {}           # (iface cls, method) -> Contract
        self.externs = {}          # name -> Contract
        self.externs_ctx = {}      # (context, name) -> Contract
        self.inline_ok = set()
        self.globals = {}
        self.hooks = {}
        self.with_hooks = []
        self.allow_unknown_externs = True
        self.context = None         # name of the oracle set in force (set by the driver from the verified contract)
        try:
            from .grid import GridHook
            from .symdict import SymDictHook
            self.hooks['grid'] = GridHook()
            self.hooks['symdict'] = SymDictHook()
        except ImportError:        # concrete harness: no solver, no symbolic heap
            pass

    def add(self, con):
        if isinstance(con, type):
            con = con()
        self.contracts.setdefault(con.name, []).append(con)
        return con

    def add_iface(self, cls, method, con):
        if isinstance(con, type):
            con = con()
        con.name = con.name or '%s.%s' % (cls, method)
        con.assumed = True
        self.ifaces[(cls, method)] = con
        return con

    def add_extern(self, name, con):
        if isinstance(con, type):
            con = con()
        con.name = name
        con.assumed = True
        if getattr(con, 'only_in', None) is not None:
            # an assumed contract written for one verification context (the oracle set of a function under verification)
            self.externs_ctx[(con.only_in, name)] = con
            return con
        self.externs[name] = con
        return con

    def contract_for(self, qual, recv_cls=None):
        if isinstance(recv_cls, str) and recv_cls.startswith('ctx:'):
            # the variant of a contract that is written for a verification context (e.g. 'ctx:exact')
            for c in self.contracts.get(qual, []):
                if getattr(c, 'only_in', None) == recv_cls[4:]:
                    return c
            return None
        cands = [c for c in self.contracts.get(qual, []) if getattr(c, 'only_in', None) in (None, self.context)]
        for c in cands:                         # oracles written for the function under verification come first
            if self.context is not None and getattr(c, 'only_in', None) == self.context:
                return c
        if recv_cls is not None:
            for c in cands:                     # a receiver-specific contract takes precedence
                if c.receiver is not None and recv_cls in _as_tuple(c.receiver):
                    return c
        for c in cands:
            if c.receiver is None:
                return c
        for c in cands:
            if recv_cls is None:
                return c
        return None

    def may_inline(self, qual):
        return qual in self.inline_ok

    def has_iface_method(self, cls, name):
        return (cls, name) in self.ifaces

    def iface_contract(self, cls, name):
        return self.ifaces.get((cls, name))

    def extern_contract(self, name):
        if self.context is not None and (self.context, name) in self.externs_ctx:
            return self.externs_ctx[(self.context, name)]
        return self.externs.get(name)

    def module_global(self, mod, name):
        return self.globals.get((mod, name))

    def heap_hook(self, kind):
        return self.hooks.get(kind)

    def with_hook(self, interp, cm):
        for h in self.with_hooks:
            if h.matches(interp, cm):
                return h
        return None


def _as_tuple(x):
    return x if isinstance(x, (tuple, list)) else (x,)


