"""Solver portfolio for pyvc obligations.

An obligation is (hyps, goal): proved iff  And(hyps) & Not(goal)  is unsat.
Back ends, tried in order until one gives a definite answer:
  z3api  - z3-solver 5.1 python API, in process (best model finder)
  cvc5   - /usr/bin/cvc5 1.0.3 CLI, --strings-exp (best on word equations)
  z3old  - /usr/bin/z3 4.8.12 CLI
`unknown`/timeout from every back end = undecided (never a violation).
"""
import os, subprocess, tempfile, time
import z3

CVC5 = '/usr/bin/cvc5'
Z3OLD = '/usr/bin/z3'


class Verdict:
    def __init__(self, status, backend, seconds, model=None, detail='', tried=None):
        self.status = status      # 'proved' | 'refuted' | 'undecided'
        self.backend = backend
        self.seconds = seconds
        self.model = model        # z3 ModelRef or dict (from CLI) or None
        self.detail = detail
        self.tried = tried or []  # [(backend, answer, seconds)]


def _smt2(hyps, goal):
    s = z3.Solver()
    for h in hyps:
        s.add(h)
    s.add(z3.Not(goal))
    return s.to_smt2()


def _run_cli(cmd, text, timeout_s):
    with tempfile.NamedTemporaryFile('w', suffix='.smt2', delete=False) as f:
        f.write(text)
        path = f.name
    t0 = time.time()
    try:
        p = subprocess.run(cmd + [path], capture_output=True, text=True, timeout=timeout_s + 2)
        out = (p.stdout or '').strip().splitlines()
        ans = out[0].strip() if out else 'unknown'
        if ans not in ('sat', 'unsat', 'unknown'):
            ans = 'unknown'
    except subprocess.TimeoutExpired:
        ans = 'unknown'
    finally:
        try:
            os.unlink(path)
        except OSError:
            pass
    return ans, time.time() - t0


def discharge(hyps, goal, budget_s=10.0, want_model=True, backends=('z3api', 'cvc5', 'z3old')):
    """Return a Verdict for the obligation hyps |- goal."""
    tried = []
    t_start = time.time()
    model = None
    sat_seen = None
    for be in backends:
        if be == 'z3api':
            s = z3.Solver()
            s.set('timeout', int(budget_s * 1000))
            for h in hyps:
                s.add(h)
            s.add(z3.Not(goal))
            t0 = time.time()
            r = s.check()
            dt = time.time() - t0
            ans = str(r)
            tried.append((be, ans, round(dt, 3)))
            if r == z3.unsat:
                return Verdict('proved', be, time.time() - t_start, tried=tried)
            if r == z3.sat:
                try:
                    model = s.model()
                except z3.Z3Exception:
                    model = None
                sat_seen = be
                break
        else:
            text = _smt2(hyps, goal)
            if be == 'cvc5':
                text = '(set-logic ALL)\n' + text
                cmd = [CVC5, '--strings-exp', '--tlimit=%d' % int(budget_s * 1000)]
            else:
                cmd = [Z3OLD, '-T:%d' % max(1, int(budget_s))]
            ans, dt = _run_cli(cmd, text, budget_s)
            tried.append((be, ans, round(dt, 3)))
            if ans == 'unsat':
                return Verdict('proved', be, time.time() - t_start, tried=tried)
            if ans == 'sat':
                sat_seen = be
                # ask z3api for a model with a longer budget (it is the model finder)
                s = z3.Solver()
                s.set('timeout', int(budget_s * 2000))
                for h in hyps:
                    s.add(h)
                s.add(z3.Not(goal))
                if s.check() == z3.sat:
                    model = s.model()
                break
    if sat_seen:
        return Verdict('refuted', sat_seen, time.time() - t_start, model=model, tried=tried)
    return Verdict('undecided', None, time.time() - t_start, tried=tried)


def all_backends(hyps, goal, budget_s=60.0):
    """Thorough tier: ask every back end; report disagreement."""
    res = {}
    s = z3.Solver()
    s.set('timeout', int(budget_s * 1000))
    for h in hyps:
        s.add(h)
    s.add(z3.Not(goal))
    t0 = time.time()
    res['z3api'] = (str(s.check()), time.time() - t0)
    text = _smt2(hyps, goal)
    res['cvc5'] = _run_cli([CVC5, '--strings-exp', '--tlimit=%d' % int(budget_s * 1000)], '(set-logic ALL)\n' + text, budget_s)
    res['z3old'] = _run_cli([Z3OLD, '-T:%d' % int(budget_s)], text, budget_s)
    answers = {v[0] for v in res.values()} - {'unknown'}
    return res, (len(answers) > 1)
