"""Statement / expression semantics of the accepted Python subset (see DESIGN.md 2.2)."""
import ast, os
import z3
from .values import *
from .engine import *
from .engine import _Return, _Break, _Continue, _PathStop
from . import spec as S

BUILTIN_TYPES = {'str': 's', 'bytes': 'b'}
MODULE_NAMES = {'time', 'os', 're', 'errno', 'sys', 'select', 'signal', 'socket', 'codecs', 'copy', 'tty',
                'termios', 'struct', 'fcntl', 'pty', 'resource', 'subprocess', 'threading', 'shlex',
                'string', 'stat', 'asyncio', 'ptyprocess', 'traceback', 'itertools', 'types', 'platform'}


class LocalsView:
    def __init__(self, ctx, heap, d):
        object.__setattr__(self, '_ctx', ctx)
        object.__setattr__(self, '_heap', heap)
        object.__setattr__(self, '_d', d)

    def __getattr__(self, name):
        if name not in self._d:
            raise AttributeError('spec view: no local/arg named %s' % name)
        return to_spec(self._ctx, self._heap, self._d[name])

    def has(self, name):
        return name in self._d


class StateView:
    """What loop invariants and postconditions are evaluated over."""
    def __init__(self, ctx, frame, result=None, raised=None, exc=None):
        # every view is over a SNAPSHOT: quantifier bodies are closures evaluated later, at instantiation
        # time, and must not see states reached afterwards
        self.ctx = ctx
        snap = ctx.snapshot()
        self.l = LocalsView(ctx, snap, dict(frame.locals))
        self.old = LocalsView(ctx, frame.pre_heap, frame.pre_args)
        self.new = LocalsView(ctx, snap, frame.pre_args)
        self.g = dict(ctx.ghost)
        self.g0 = frame.pre_ghost
        self.trace = ctx.trace
        self.result = result
        self.raised = raised
        self.exc = exc
        self.entry = None

    def view(self, value, new=False):
        return to_spec(self.ctx, self.l._heap, value)


class Frame:
    def __init__(self, fi, module, cls, locals_, con=None, closure=None):
        self.fi, self.module, self.cls = fi, module, cls
        self.locals = locals_
        self.con = con
        self.closure = closure
        self.loop_ord = 0
        self.pre_heap = None
        self.pre_args = None
        self.pre_ghost = None


class Interp:
    def __init__(self, ctx):
        self.ctx = ctx
        self.prog = ctx.prog
        self.reg = ctx.registry

    # =====================================================================================
    # helpers on values
    # =====================================================================================
    def truth(self, v):
        """z3 Bool (or python bool) for the truthiness of v."""
        if isinstance(v, VBool):
            return v.t
        if isinstance(v, VInt):
            return v.t != 0
        if isinstance(v, VReal):
            return v.t != 0
        if isinstance(v, VStr):
            return z3.Length(v.t) > 0
        if isinstance(v, VNone):
            return False
        if isinstance(v, (VClass, VFunc, VModule)):
            return True
        if isinstance(v, VTuple):
            return len(v.items) > 0
        if isinstance(v, VOpt):
            t = self.truth(v.inner)
            if isinstance(t, bool):
                return z3.And(z3.Not(v.isnone), z3.BoolVal(t))
            return z3.And(z3.Not(v.isnone), t)
        if isinstance(v, VObj):
            h = self.ctx.heap[v.oid]
            if h.kind == 'list':
                return len(h.fields['items']) > 0
            if h.kind == 'symlist':
                return h.fields['len'].t > 0
            if h.kind == 'dict':
                if 'truthy' in h.fields:
                    return h.fields['truthy'].t
                if 'keys' in h.fields:
                    return len(h.fields['keys']) > 0
                raise Unsupported('truthiness of dict')
            return True
        if isinstance(v, VAny):
            f = z3.Function('truthy', Val, z3.BoolSort())
            return f(v.t)
        if isinstance(v, VPat):
            return z3.Or(z3.Not(v.is_text()), S._b(self.truth(v.payload)))
        raise Unsupported('truthiness of %r' % (v,))

    def decide_truth(self, v, tag=''):
        t = self.truth(v)
        return self.ctx.decide(t, tag)

    def as_int(self, v, what='int'):
        if isinstance(v, VInt):
            return v.t
        if isinstance(v, VBool):
            return z3.If(v.t, 1, 0)
        if isinstance(v, VOpt):
            self.ctx.safe(z3.Not(v.isnone), 'not-none.' + what)
            return self.as_int(v.inner, what)
        raise Unsupported('expected int for %s, got %r' % (what, v))

    def as_num(self, v, what='num'):
        if isinstance(v, VReal):
            return v.t
        if isinstance(v, VOpt):
            self.ctx.safe(z3.Not(v.isnone), 'not-none.' + what)
            return self.as_num(v.inner, what)
        return self.as_int(v, what)

    def is_num(self, v):
        return isinstance(v, (VInt, VReal, VBool)) or (isinstance(v, VOpt) and self.is_num(v.inner))

    def unopt(self, v, what='value'):
        if isinstance(v, VPat):
            self.ctx.safe(v.is_text(), 'pattern-element-is-not-a-marker.' + what)
            return v.payload
        if isinstance(v, VOpt):
            self.ctx.safe(z3.Not(v.isnone), 'not-none.' + what)
            return v.inner
        return v

    def const(self, py):
        if py is None:
            return VNone()
        if isinstance(py, bool):
            return VBool(py)
        if isinstance(py, int):
            return VInt(py)
        if isinstance(py, float):
            return VReal(py)
        if isinstance(py, str):
            return VStr(py, 's')
        if isinstance(py, bytes):
            return VStr(py, 'b')
        if isinstance(py, tuple):
            return VTuple([self.const(x) for x in py])
        if py is Ellipsis:
            return VAny(self.ctx._const('ellipsis', Val))
        raise Unsupported('constant %r' % (py,))

    def veq(self, a, b):
        """Python == ; returns z3 Bool or python bool."""
        if isinstance(a, VPat) or isinstance(b, VPat):
            p_, x = (a, b) if isinstance(a, VPat) else (b, a)
            if isinstance(x, (VClass, VNone)):
                return self.vis(a, b)
            if isinstance(x, VPat):
                raise Unsupported('== between pattern elements')
            return z3.And(p_.is_text(), S._b(self.veq(p_.payload, x)))
        if isinstance(a, VOpt) or isinstance(b, VOpt):
            if isinstance(a, VOpt) and isinstance(b, VOpt):
                inner = self.veq(a.inner, b.inner)
                return z3.Or(z3.And(a.isnone, b.isnone), z3.And(z3.Not(a.isnone), z3.Not(b.isnone), S._b(inner)))
            o, x = (a, b) if isinstance(a, VOpt) else (b, a)
            if isinstance(x, VNone):
                return o.isnone
            return z3.And(z3.Not(o.isnone), S._b(self.veq(o.inner, x)))
        if isinstance(a, VNone) or isinstance(b, VNone):
            if isinstance(a, VAny) or isinstance(b, VAny):
                x = a if isinstance(a, VAny) else b
                if x.notnone:
                    return False
                return z3.Function('is_none_val', Val, z3.BoolSort())(x.t)
            return isinstance(a, VNone) and isinstance(b, VNone)
        for x, o in ((a, b), (b, a)):
            if isinstance(x, VAny) and x.kindtag in ('regex', 'nonpattern') and isinstance(o, (VClass, VStr)):
                return False            # a compiled pattern / some non-pattern object equals no class and no string
        if self.is_num(a) and self.is_num(b):
            return self.as_num(a) == self.as_num(b)
        if isinstance(a, VStr) and isinstance(b, VStr):
            if a.kind != b.kind:
                return False
            return a.t == b.t
        if isinstance(a, VClass) and isinstance(b, VClass):
            return a.name == b.name
        if isinstance(a, VTuple) and isinstance(b, VTuple):
            if len(a.items) != len(b.items):
                return False
            parts = [S._b(self.veq(x, y)) for x, y in zip(a.items, b.items)]
            return z3.And(*parts) if parts else True
        if isinstance(a, VObj) and isinstance(b, VObj):
            if a.oid == b.oid:
                return True
            ha, hb = self.ctx.heap[a.oid], self.ctx.heap[b.oid]
            if ha.kind == 'list' and hb.kind == 'list':
                ia, ib = ha.fields['items'], hb.fields['items']
                if len(ia) != len(ib):
                    return False
                parts = [S._b(self.veq(x, y)) for x, y in zip(ia, ib)]
                return z3.And(*parts) if parts else True
            if ha.kind == 'dict' and hb.kind == 'dict' and 'keys' in ha.fields and 'keys' in hb.fields:
                if len(ha.fields['keys']) != len(hb.fields['keys']):
                    return False
                if not ha.fields['keys']:
                    return True
                raise Unsupported('== between non-empty dicts')
            return False
        if isinstance(a, VAny) and isinstance(b, VAny):
            return a.t == b.t
        if isinstance(a, VAny) or isinstance(b, VAny):
            x, o = (a, b) if isinstance(a, VAny) else (b, a)
            return self.any_eq(x, o)
        if type(a) is not type(b):
            return False
        raise Unsupported('== between %r and %r' % (a, b))

    def any_eq(self, x, o):
        """Equality of an untyped value with a typed one: an uninterpreted predicate per type."""
        if isinstance(o, VClass):
            return z3.Function('is_class_' + o.name, Val, z3.BoolSort())(x.t)
        if isinstance(o, VStr):
            return z3.Function('val_eq_str', Val, z3.StringSort(), z3.BoolSort())(x.t, o.t)
        if isinstance(o, VInt):
            return z3.Function('val_eq_int', Val, z3.IntSort(), z3.BoolSort())(x.t, o.t)
        raise Unsupported('== between untyped value and %r' % (o,))

    def vis(self, a, b):
        """Python `is`."""
        if isinstance(a, VPat) or isinstance(b, VPat):
            p_, x = (a, b) if isinstance(a, VPat) else (b, a)
            if isinstance(x, VClass):
                if x.name == 'EOF':
                    return p_.iseof
                if x.name == 'TIMEOUT':
                    return z3.And(z3.Not(p_.iseof), p_.isto)
                return False
            if isinstance(x, VNone):
                return False
            raise Unsupported('is between a pattern element and %r' % (x,))
        if isinstance(a, VOpt) or isinstance(b, VOpt):
            o, x = (a, b) if isinstance(a, VOpt) else (b, a)
            if isinstance(x, VNone):
                return o.isnone
            if isinstance(x, VOpt):
                raise Unsupported('is between optionals')
            return z3.And(z3.Not(o.isnone), S._b(self.vis(o.inner, x)))
        if isinstance(a, VNone) or isinstance(b, VNone):
            if isinstance(a, VAny) or isinstance(b, VAny):
                x = a if isinstance(a, VAny) else b
                if x.notnone:
                    return False
                return z3.Function('is_none_val', Val, z3.BoolSort())(x.t)
            return isinstance(a, VNone) and isinstance(b, VNone)
        if isinstance(a, VClass) and isinstance(b, VClass):
            return a.name == b.name
        if isinstance(a, VObj) and isinstance(b, VObj):
            return a.oid == b.oid
        if isinstance(a, VAny) and isinstance(b, VAny):
            return a.t == b.t
        if isinstance(a, VAny) or isinstance(b, VAny):
            x, o = (a, b) if isinstance(a, VAny) else (b, a)
            if x.kindtag == 'regex' or (x.kindtag == 'nonpattern' and isinstance(o, (VClass, VStr))):
                return False            # a compiled regular expression is no class, string or number
            if isinstance(o, VClass):
                return self.any_eq(x, o)
            return False if isinstance(o, VObj) else self.any_eq(x, o)
        if isinstance(a, VBool) and isinstance(b, VBool):
            return a.t == b.t
        if type(a) is not type(b):
            return False
        if isinstance(a, VInt):
            return a.t == b.t
        raise Unsupported('is between %r and %r' % (a, b))

    def tuple_of(self, items):
        return VTuple(list(items))

    def raise_exc(self, clsname, *args):
        raise PyExc(self.ctx.new_exc(clsname, list(args)))

    # =====================================================================================
    # slicing / strings
    # =====================================================================================
    def norm_index(self, i, L, default, tag):
        """Clamp a slice bound python-style; returns a z3 Int term.  Resolved by entailment,
        forking only when undetermined."""
        ctx = self.ctx
        if i is None or isinstance(i, VNone):
            return default
        t = self.as_int(i, 'slice bound')
        if ctx.decide(t < 0, tag + '<0'):
            if ctx.decide(t + L < 0, tag + '+L<0'):
                return z3.IntVal(0)
            return z3.simplify(t + L)
        if ctx.decide(t > L, tag + '>L'):
            return L
        return t

    def slice_str(self, s, lo, hi, tag='slice'):
        L = z3.Length(s.t)
        a = self.norm_index(lo, L, z3.IntVal(0), tag + '.lo')
        b = self.norm_index(hi, L, L, tag + '.hi')
        if self.ctx.decide(a >= b, tag + '.empty'):
            return VStr(z3.StringVal(''), s.kind)
        a, b = z3.simplify(a), z3.simplify(b)
        if z3.is_int_value(a) and a.as_long() == 0 and b.eq(L):
            return s
        return VStr(z3.SubString(s.t, a, z3.simplify(b - a)), s.kind)

    def str_index(self, s, i):
        L = z3.Length(s.t)
        t = self.as_int(i, 'index')
        ctx = self.ctx
        if ctx.decide(t < 0, 'idx<0'):
            t = t + L
        if not ctx.decide(z3.And(t >= 0, t < L), 'idx-in-range'):
            self.raise_exc('IndexError')
        if s.kind == 'b':
            # bytes[i] is an int
            return VInt(z3.StrToCode(z3.SubString(s.t, t, 1)))
        return VStr(z3.SubString(s.t, t, 1), s.kind)

    # =====================================================================================
    # expressions
    # =====================================================================================
    def eval(self, node, fr):
        m = getattr(self, 'e_' + type(node).__name__, None)
        if m is None:
            raise Unsupported('expression %s at line %d' % (type(node).__name__, getattr(node, 'lineno', 0)))
        return m(node, fr)

    def e_Constant(self, node, fr):
        return self.const(node.value)

    def e_JoinedStr(self, node, fr):
        for v in node.values:
            if isinstance(v, ast.FormattedValue):
                self.to_str_call(self.eval(v.value, fr), fr)
        return VStr(self.ctx._const('fstring', z3.StringSort()), 's')

    def e_Name(self, node, fr):
        return self.lookup(node.id, fr, node)

    def lookup(self, name, fr, node=None):
        f = fr
        while f is not None:
            if name in f.locals:
                v = f.locals[name]
                if isinstance(v, VUnion):
                    v = self.resolve_union(v)
                    f.locals[name] = v
                return v
            f = f.closure
        # module level
        mod = fr.module
        imp = self.prog.imports.get(mod, {})
        if name in imp:
            return self.resolve_qual(imp[name])
        if mod + '.' + name in self.prog.classes:
            if name in EXC_PARENTS:
                return VClass(name)
            return VClass(mod + '.' + name)
        if mod + '.' + name in self.prog.funcs:
            return VFunc('function', fi=self.prog.funcs[mod + '.' + name])
        g = self.module_global(mod, name)
        if g is not None:
            return g
        if name in MODULE_NAMES:
            return VModule(name)
        b = self.builtin_name(name)
        if b is not None:
            return b
        raise Unsupported('unresolved name %s (line %s)' % (name, getattr(node, 'lineno', '?')))

    def resolve_union(self, u):
        """case split on the alternative (one path per alternative)"""
        ctx = self.ctx
        feasible = []
        for i, (lab, val) in enumerate(u.alts):
            feasible.append(i)
        k = ctx.choose(len(feasible), 'union')
        i = feasible[k]
        ctx.assume(u.tag == i)
        if not ctx.feasible():
            raise Infeasible()
        ctx.path_tags.append(('union', u.alts[i][0]))
        import copy
        val = copy.copy(u.alts[i][1])
        val.origin = u          # passed on to a contract, the value is still seen as the union it was drawn from
        return val

    def module_global(self, mod, name):
        if name == 'PY3':
            return VBool(True)
        if name == 'text_type':
            return VClass('str')
        if name == 'string_types':
            return VTuple([VClass('str')])
        g0 = self.reg.module_global(mod, name)
        if g0 is not None:
            return g0(self.ctx)
        tree = self.prog.modules.get(mod)
        if tree is None:
            return None
        for node in tree.body:
            if isinstance(node, ast.Assign) and len(node.targets) == 1 and isinstance(node.targets[0], ast.Name) \
                    and node.targets[0].id == name:
                if isinstance(node.value, ast.Constant):
                    return self.const(node.value.value)
                g = self.reg.module_global(mod, name)
                if g is not None:
                    return g(self.ctx)
                raise Unsupported('module global %s.%s' % (mod, name))
        return None

    def resolve_qual(self, q):
        q = self.prog.canonical(q)
        short = q.split('.')[-1]
        if q.startswith('pexpect.exceptions.'):
            return VClass(short)
        if q in self.prog.classes:
            if short in EXC_PARENTS and q != 'pexpect.exceptions.' + short:
                return VClass(short)
            return VClass(q)
        if q in self.prog.funcs:
            return VFunc('function', fi=self.prog.funcs[q])
        if q in ('io.BytesIO', 'io.StringIO'):
            return VClass(short)
        if q in ('queue.Empty', 'Queue.Empty'):
            return VClass('Empty')
        if q in self.prog.modules:
            return VModule(q)
        # re-exported names
        for m in self.prog.modules:
            if m + '.' + short == q:
                pass
        if q.startswith('pexpect.'):
            # e.g. from .spawnbase import SpawnBase / from .utils import which
            mod, _, nm = q.rpartition('.')
            imp = self.prog.imports.get(mod, {})
            if nm in imp:
                return self.resolve_qual(imp[nm])
            g = self.module_global(mod, nm)
            if g is not None:
                return g
        if '.' not in q or q.split('.')[0] in MODULE_NAMES:
            if short in EXC_PARENTS or q in EXC_PARENTS:
                return VClass(q if q in EXC_PARENTS else short)
            if q in MODULE_NAMES:
                return VModule(q)
            return VFunc('extern', name=q)
        return VFunc('extern', name=q)

    def builtin_name(self, name):
        if name in ('True', 'False'):
            return VBool(name == 'True')
        if name == 'None':
            return VNone()
        if name in EXC_PARENTS or name in ('BaseException',):
            return VClass(name)
        if name in ('str', 'bytes', 'int', 'float', 'list', 'dict', 'tuple', 'type', 'object', 'bool', 'set',
                    'bytearray', 'unicode', 'basestring'):
            return VClass(name)
        if name in ('len', 'max', 'min', 'isinstance', 'hasattr', 'getattr', 'setattr', 'ord', 'chr', 'range',
                    'enumerate', 'iter', 'repr', 'super', 'callable', 'zip', 'abs', 'sorted', 'id', 'locals',
                    'print', 'any', 'all', 'sum', 'reversed', 'next', 'issubclass', 'open', 'hash', 'map', 'filter'):
            return VFunc('builtin', name=name)
        return None

    def e_Attribute(self, node, fr):
        base = self.eval(node.value, fr)
        return self.getattr(base, mangle(node.attr, fr), fr, node)

    def getattr(self, base, name, fr, node=None):
        ctx = self.ctx
        if isinstance(base, VOpt):
            base = self.unopt(base, 'attribute base .' + name)
        if isinstance(base, VObj):
            h = ctx.heap[base.oid]
            if name in h.fields and h.kind in ('obj', 'exc'):
                return h.fields[name]
            if h.kind == 'exc':
                if name == 'errno':
                    args = h.fields['args'].items
                    return args[0] if args else VNone()
                if name == '__cause__':
                    return VNone()
                return VFunc('bound_builtin', name='exc.' + name, self=base)
            if h.kind in ('io', 'list', 'symlist', 'dict'):
                return VFunc('bound_builtin', name=h.kind + '.' + name, self=base)
            # instance of a program class or of an interface
            cq = h.cls
            if cq in self.prog.classes:
                pr = self.prog.find_property(cq, name)
                if pr is not None:
                    c, (g, s) = pr
                    fi = self.prog.find_method(cq, g)
                    return self.call_function(fi, [base], {}, fr, recv_cls=cq)
                fi = self.prog.find_method(cq, name)
                if fi is None and name.startswith('_') and '__' in name[1:]:
                    # a private method: self.__m inside class C is looked up as _C__m; it is defined as __m in C
                    cls_part, _, priv = name[1:].partition('__')
                    for c in self.prog.mro(cq):
                        if c.rsplit('.', 1)[-1].lstrip('_') == cls_part and ('__' + priv) in self.prog.classes[c].methods:
                            fi = self.prog.classes[c].methods['__' + priv]
                            break
                if fi is not None:
                    if fi.is_static:
                        return VFunc('function', fi=fi)
                    return VFunc('method', fi=fi, self=base, recv_cls=cq)
                ca = self.prog.class_attr(cq, name)
                if ca is not None:
                    if isinstance(ca, ast.Constant):
                        return self.const(ca.value)
                    raise Unsupported('class attribute %s.%s' % (cq, name))
            if cq == 'iface:osfile':
                return VFunc('builtin', name='print')
            if cq.startswith('iface:') or self.reg.has_iface_method(cq, name):
                return VFunc('iface', cls=cq, name=name, self=base)
            if h.closed:
                ctx.oblige('safe.attr-defined.%s' % name, False, 'safe', 'line %s' % getattr(node, 'lineno', '?'))
                self.raise_exc('AttributeError')
            raise Unsupported('attribute %s of %s not declared in the contract shape (line %s)'
                              % (name, cq, getattr(node, 'lineno', '?')))
        if isinstance(base, VStr):
            return VFunc('bound_builtin', name='str.' + name, self=base)
        if isinstance(base, VModule):
            return self.module_attr(base.name, name)
        if isinstance(base, VClass):
            if base.name in self.prog.classes:
                fi = self.prog.find_method(base.name, name)
                if fi is not None:
                    return VFunc('function', fi=fi, static_of=base.name)
            return VFunc('extern', name=base.name + '.' + name)
        if isinstance(base, VFunc) and base.kind == 'super':
            fi = self.prog.find_method(base.recv_cls, name, after=base.after)
            if fi is None:
                raise Unsupported('super().%s not found' % name)
            return VFunc('method', fi=fi, self=base.self, recv_cls=base.recv_cls)
        if isinstance(base, VFunc) and base.kind == 'extern':
            return VFunc('extern', name=base.name + '.' + name)
        if isinstance(base, VAny) and name in ('pattern', 'flags') and (base.kindtag == 'regex'):
            if name == 'flags':
                return VInt(S.ReFlags(base.t))
            txt = S.RePatText(base.t)
            return VUnion(z3.If(S.RePatIsBytes(base.t), 0, 1), [('bytes', VStr(txt, 'b')), ('text', VStr(txt, 's'))])
        if isinstance(base, VAny):
            return VFunc('opaque_attr', base=base, name=name)
        if isinstance(base, VTuple):
            return VFunc('bound_builtin', name='tuple.' + name, self=base)
        raise Unsupported('attribute .%s on %r (line %s)' % (name, base, getattr(node, 'lineno', '?')))

    def module_attr(self, mod, name):
        q = mod + '.' + name
        if mod == 'errno':
            return VInt(self.errno_const(name))
        if mod == 're' and name in ('DOTALL', 'IGNORECASE', 'MULTILINE', 'VERBOSE', 'ASCII', 'UNICODE', 'LOCALE', 'I', 'S', 'M', 'X', 'A', 'U', 'L'):
            import re as _re
            return VInt(int(getattr(_re, name)))
        if mod == 'signal' and name.startswith('SIG'):
            import signal as _sg
            v = getattr(_sg, name)
            return VInt(int(v)) if isinstance(v, int) else VAny(self.ctx._const('signal.' + name, Val))
        if q in EXC_PARENTS:
            return VClass(q)
        if name in EXC_PARENTS and mod not in self.prog.modules:
            return VClass(name)
        if mod == 'select' and name == 'error':
            return VClass('OSError')
        if mod == 'select' and name.startswith('POLL'):
            import select as _sel
            return VInt(int(getattr(_sel, name)))
        if mod == 'socket' and name == 'timeout':
            return VClass('socket.timeout')
        if mod == 'sys' and name == 'platform':
            return VStr('linux', 's')
        if mod == 'os' and name == 'linesep':
            return VStr('\n', 's')
        if mod == 'string' and name == 'digits':
            return VStr('0123456789', 's')
        if mod == 'os' and name in ('path', 'environ'):
            return VModule('os.' + name)
        if mod == 'os' and name == 'name':
            return VStr('posix', 's')
        if mod == 'os' and name == 'defpath':
            return VStr(':/bin:/usr/bin', 's')
        if mod == 'os' and name == 'pathsep':
            return VStr(':', 's')
        if mod in self.prog.modules:
            if q in self.prog.classes:
                return VClass(q)
            if q in self.prog.funcs:
                return VFunc('function', fi=self.prog.funcs[q])
            g = self.module_global(mod, name)
            if g is not None:
                return g
        g = self.reg.module_global(mod, name)
        if g is not None:
            return g(self.ctx)
        return VFunc('extern', name=q)

    def errno_const(self, name):
        import errno as _e
        return getattr(_e, name)

    def e_Tuple(self, node, fr):
        return VTuple([self.eval(e, fr) for e in node.elts])

    def e_List(self, node, fr):
        items = [self.eval(e, fr) for e in node.elts]
        return self.ctx.alloc(HObj('list', 'list', {'items': items}, closed=True))

    def e_Dict(self, node, fr):
        keys = [self.eval(k, fr) for k in node.keys]
        vals = [self.eval(v, fr) for v in node.values]
        return self.ctx.alloc(HObj('dict', 'dict', {'keys': keys, 'vals': vals}, closed=True))

    def e_UnaryOp(self, node, fr):
        v = self.eval(node.operand, fr)
        if isinstance(node.op, ast.Not):
            t = self.truth(v)
            if isinstance(t, bool):
                return VBool(not t)
            return VBool(z3.Not(t))
        if isinstance(node.op, ast.USub):
            if isinstance(v, VReal):
                return VReal(-v.t)
            return VInt(z3.simplify(-self.as_int(v, 'unary minus')))
        if isinstance(node.op, ast.UAdd):
            return v
        if isinstance(node.op, ast.Invert):
            t = z3.simplify(self.as_int(v, 'bitwise not'))
            if z3.is_int_value(t):
                return VInt(~t.as_long())
            return VInt(z3.simplify(-t - 1))
        raise Unsupported('unary op')

    def e_BoolOp(self, node, fr):
        # operand-valued, short-circuit
        is_and = isinstance(node.op, ast.And)
        v = None
        for i, e in enumerate(node.values):
            v = self.eval(e, fr)
            if i == len(node.values) - 1:
                return v
            t = self.decide_truth(v, 'boolop@%d' % node.lineno)
            if is_and and not t:
                return v
            if (not is_and) and t:
                return v
        return v

    def e_IfExp(self, node, fr):
        if self.decide_truth(self.eval(node.test, fr), 'ifexp@%d' % node.lineno):
            return self.eval(node.body, fr)
        return self.eval(node.orelse, fr)

    def e_Compare(self, node, fr):
        left = self.eval(node.left, fr)
        parts = []
        for op, rn in zip(node.ops, node.comparators):
            right = self.eval(rn, fr)
            parts.append(self.compare(op, left, right, node))
            left = right
        if len(parts) == 1:
            r = parts[0]
        else:
            r = z3.And(*[S._b(p) for p in parts])
        if isinstance(r, bool):
            return VBool(r)
        return VBool(r)

    def compare(self, op, a, b, node=None):
        if isinstance(op, ast.Eq):
            return self.veq(a, b)
        if isinstance(op, ast.NotEq):
            return S.Not(self.veq(a, b))
        if isinstance(op, ast.Is):
            return self.vis(a, b)
        if isinstance(op, ast.IsNot):
            return S.Not(self.vis(a, b))
        if isinstance(op, (ast.Lt, ast.LtE, ast.Gt, ast.GtE)):
            if (isinstance(a, (VNone,)) or isinstance(b, (VNone,))):
                self.ctx.oblige('safe.order-compare-none', False, 'safe', 'line %s' % getattr(node, 'lineno', '?'))
                self.raise_exc('TypeError')
            if isinstance(a, VStr) and isinstance(b, VStr):
                raise Unsupported('string ordering')
            x, y = self.as_num(a, 'comparison'), self.as_num(b, 'comparison')
            if isinstance(op, ast.Lt):
                return x < y
            if isinstance(op, ast.LtE):
                return x <= y
            if isinstance(op, ast.Gt):
                return x > y
            return x >= y
        if isinstance(op, (ast.In, ast.NotIn)):
            r = self.contains(b, a)
            return r if isinstance(op, ast.In) else S.Not(r)
        raise Unsupported('comparison %s' % type(op).__name__)

    def contains(self, container, item):
        if isinstance(container, VTuple):
            parts = [S._b(self.veq(item, x)) for x in container.items]
            return z3.Or(*parts) if parts else False
        if isinstance(container, VStr) and isinstance(item, VStr):
            return z3.Contains(container.t, item.t)
        if isinstance(container, VObj):
            h = self.ctx.heap[container.oid]
            if h.kind == 'symdict':
                return self.reg.heap_hook('symdict').contains(self, container, item)
            if h.kind == 'list':
                parts = [S._b(self.veq(item, x)) for x in h.fields['items']]
                return z3.Or(*parts) if parts else False
            if h.kind == 'dict' and 'keys' in h.fields:
                parts = [S._b(self.veq(item, x)) for x in h.fields['keys']]
                return z3.Or(*parts) if parts else False
        raise Unsupported('membership test in %r' % (container,))

    def e_BinOp(self, node, fr):
        a = self.eval(node.left, fr)
        b = self.eval(node.right, fr)
        return self.binop(node.op, a, b, fr, node)

    def binop(self, op, a, b, fr, node=None):
        ctx = self.ctx
        if isinstance(op, ast.Mod) and isinstance(a, VStr):
            args = b.items if isinstance(b, VTuple) else [b]
            lit = z3.simplify(a.t)
            if z3.is_string_value(lit) and all(isinstance(x, VInt) for x in args):
                # '...%d...' % ints: literal pieces and the decimal renderings, exactly
                pieces = lit.as_string().split('%d')
                if len(pieces) == len(args) + 1 and not any('%' in p for p in pieces):
                    def dec(t):
                        return z3.If(t >= 0, z3.IntToStr(t), z3.Concat(z3.StringVal('-'), z3.IntToStr(-t)))
                    parts = [z3.StringVal(pieces[0])]
                    for x, p in zip(args, pieces[1:]):
                        parts += [dec(x.t), z3.StringVal(p)]
                    return VStr(z3.Concat(*parts) if len(parts) > 1 else parts[0], a.kind)
            for x in args:
                self.to_str_call(x, fr)
            return VStr(ctx._const('fmt', z3.StringSort()), a.kind)
        if isinstance(a, VStr) and isinstance(b, VStr) and isinstance(op, ast.Add):
            if a.kind != b.kind:
                ctx.oblige('safe.concat-same-string-type', False, 'safe', 'line %s' % getattr(node, 'lineno', '?'))
                self.raise_exc('TypeError')
            return VStr(z3.Concat(a.t, b.t), a.kind)
        if isinstance(a, VStr) and isinstance(op, ast.Mult) and self.is_num(b):
            z = z3.simplify(a.t)
            if z3.is_string_value(z) and len(z.as_string()) == 1:
                F = z3.Function('Repeat', z3.StringSort(), z3.IntSort(), z3.StringSort())
                r = F(a.t, self.as_int(b))
                ctx.assume(z3.Length(r) == z3.If(self.as_int(b) > 0, self.as_int(b), 0))
                return VStr(r, a.kind)
            raise Unsupported('string repetition')
        if isinstance(a, VObj) and isinstance(op, ast.Mult) and ctx.heap[a.oid].kind == 'list' and self.is_num(b) \
                and len(ctx.heap[a.oid].fields['items']) == 1:
            return ctx.alloc(HObj('list', 'replist', {'item': ctx.heap[a.oid].fields['items'][0], 'n': VInt(self.as_int(b))},
                                  closed=True))
        if isinstance(a, VTuple) and isinstance(b, VTuple) and isinstance(op, ast.Add):
            return VTuple(a.items + b.items)
        if isinstance(a, VObj) and isinstance(b, VObj) and isinstance(op, ast.Add):
            ha, hb = ctx.heap[a.oid], ctx.heap[b.oid]
            if ha.kind == 'list' and hb.kind == 'list':
                return ctx.alloc(HObj('list', 'list', {'items': ha.fields['items'] + hb.fields['items']}, closed=True))
            if ha.kind == 'symlist' and hb.kind == 'list' and ha.fields.get('scalar'):
                # symbolic list + [x, ...] : appended one by one on a copy
                n = ha.fields['len'].t
                comps = list(ha.fields['comps'])
                for x in hb.fields['items']:
                    x = self.unopt(x, 'list element') if isinstance(x, VPat) else x
                    if not hasattr(x, 't') or x.t.sort() != comps[0][0].sort().range():
                        raise Unsupported('symbolic list + list of another element type')
                    comps = [(z3.Store(comps[0][0], n, x.t), comps[0][1])]
                    n = z3.simplify(n + 1)
                return ctx.alloc(HObj('list', 'symlist', {'len': VInt(n), 'comps': comps, 'scalar': True, 'pat': False}, closed=True))
        if self.is_num(a) and self.is_num(b):
            real = isinstance(self.unopt_peek(a), VReal) or isinstance(self.unopt_peek(b), VReal)
            x, y = self.as_num(a, 'arith'), self.as_num(b, 'arith')
            if real:
                x = z3.ToReal(x) if x.sort() == z3.IntSort() else x
                y = z3.ToReal(y) if y.sort() == z3.IntSort() else y
            mk = VReal if real else VInt
            if isinstance(op, ast.Add):
                return mk(z3.simplify(x + y))
            if isinstance(op, ast.Sub):
                return mk(z3.simplify(x - y))
            if isinstance(op, ast.Mult):
                return mk(x * y)
            if isinstance(op, ast.BitOr) and not real:
                if z3.is_int_value(x) and z3.is_int_value(y):
                    return VInt(x.as_long() | y.as_long())
                return VInt(z3.Function('bitor', z3.IntSort(), z3.IntSort(), z3.IntSort())(x, y))
            if isinstance(op, ast.BitAnd) and not real:
                if z3.is_int_value(x) and z3.is_int_value(y):
                    return VInt(x.as_long() & y.as_long())
                return VInt(z3.Function('bitand', z3.IntSort(), z3.IntSort(), z3.IntSort())(x, y))
            if isinstance(op, ast.FloorDiv) and not real:
                ctx.safe(y != 0, 'div-nonzero')
                return VInt(x / y) if False else VInt(z3.simplify(self.floordiv(x, y)))
            if isinstance(op, ast.Mod) and not real:
                ctx.safe(y != 0, 'mod-nonzero')
                return VInt(x % y)
            if isinstance(op, ast.Div):
                ctx.safe(y != 0, 'div-nonzero')
                return VReal(z3.ToReal(x) / z3.ToReal(y) if not real else x / y)
        if isinstance(a, VNone) or isinstance(b, VNone):
            ctx.oblige('safe.arith-none', False, 'safe', 'line %s' % getattr(node, 'lineno', '?'))
            self.raise_exc('TypeError')
        raise Unsupported('binary op %s on %r, %r' % (type(op).__name__, a, b))

    def floordiv(self, x, y):
        # python floor division for positive divisor (z3 div is euclidean: same when y > 0)
        self.ctx.safe(y > 0, 'floordiv-positive-divisor')
        return x / y

    def unopt_peek(self, v):
        return v.inner if isinstance(v, VOpt) else v

    def e_Subscript(self, node, fr):
        base = self.eval(node.value, fr)
        sl = node.slice
        if isinstance(sl, ast.Slice):
            if sl.step is not None:
                raise Unsupported('slice step')
            lo = self.eval(sl.lower, fr) if sl.lower is not None else None
            hi = self.eval(sl.upper, fr) if sl.upper is not None else None
            return self.slice(base, lo, hi, node)
        idx = self.eval(sl, fr)
        return self.index(base, idx, node, fr)

    def slice(self, base, lo, hi, node=None):
        base = self.unopt(base, 'slice base')
        tag = 'slice@%s' % getattr(node, 'lineno', '?')
        if isinstance(base, VStr):
            return self.slice_str(base, lo, hi, tag)
        if isinstance(base, VTuple):
            a = self.concrete_int(lo, 0)
            b = self.concrete_int(hi, len(base.items))
            return VTuple(base.items[a:b])
        if isinstance(base, VObj):
            h = self.ctx.heap[base.oid]
            if h.kind == 'list':
                a = self.concrete_int(lo, None)
                b = self.concrete_int(hi, None)
                return self.ctx.alloc(HObj('list', 'list', {'items': h.fields['items'][a:b]}, closed=True))
            if h.kind == 'symlist' and (hi is None or isinstance(hi, VNone)):
                # lst[a:] : the same elements shifted by a
                n = h.fields['len'].t
                a = z3.IntVal(0) if lo is None or isinstance(lo, VNone) else self.as_int(lo)
                a = z3.simplify(a)
                if not (z3.is_int_value(a) and a.as_long() >= 0):
                    raise Unsupported('symbolic-list slice with a symbolic or negative start')
                ctx = self.ctx
                newlen = z3.If(n >= a, n - a, 0)
                comps = []
                for arr, ty in h.fields['comps']:
                    arr2 = z3.Const(ctx.fresh_name('slice.' + str(arr).split('!')[0][:20]), arr.sort())
                    ctx.assume(S.QForall(z3.IntVal(0), newlen, lambda k, arr=arr, arr2=arr2: z3.Select(arr2, k) == z3.Select(arr, k + a)))
                    comps.append((arr2, ty))
                return ctx.alloc(HObj('list', 'symlist', {'len': VInt(z3.simplify(newlen)), 'comps': comps,
                                                          'scalar': h.fields.get('scalar'), 'pat': h.fields.get('pat')}, closed=True))
            hook = self.reg.heap_hook(h.kind)
            if hook:
                return hook.slice(self, base, lo, hi, node)
        if isinstance(base, (VNone, VInt, VBool, VReal, VClass)):
            # None[...] / 3[...]: CPython raises TypeError ('... object is not subscriptable')
            self.ctx.oblige('safe.subscriptable', False, 'safe', 'line %s' % getattr(node, 'lineno', '?'))
            self.raise_exc('TypeError')
        raise Unsupported('slice of %r' % (base,))

    def concrete_int(self, v, default):
        if v is None or isinstance(v, VNone):
            return default
        t = z3.simplify(self.as_int(v))
        if z3.is_int_value(t):
            return t.as_long()
        raise Unsupported('symbolic index into a concrete sequence')

    def index(self, base, idx, node=None, fr=None):
        base = self.unopt(base, 'subscript base')
        if type(base).__name__ == 'VRow':
            return self.reg.heap_hook('grid').row_get(self, base, idx, node)
        if isinstance(base, VStr):
            return self.str_index(base, idx)
        if isinstance(base, VTuple):
            return base.items[self.concrete_int(idx, None)]
        if isinstance(base, VObj):
            h = self.ctx.heap[base.oid]
            if h.kind == 'list':
                items = h.fields['items']
                t = z3.simplify(self.as_int(idx))
                if z3.is_int_value(t):
                    k = t.as_long()
                    if -len(items) <= k < len(items):
                        part = items[:k + 1] if k >= 0 else items[k:]
                        if any(isinstance(x, VHidden) for x in part):
                            raise Unsupported('index reaches the hidden part of the list')
                        return items[k]
                    self.ctx.oblige('safe.index-in-range', False, 'safe', 'line %s' % getattr(node, 'lineno', '?'))
                    self.raise_exc('IndexError')
                # symbolic index into a concrete list: case split
                for k in range(len(items)):
                    if self.ctx.decide(t == k, 'listidx'):
                        return items[k]
                self.ctx.oblige('safe.index-in-range', False, 'safe', 'line %s' % getattr(node, 'lineno', '?'))
                self.raise_exc('IndexError')
            if h.kind == 'symlist':
                t = self.as_int(idx)
                n = h.fields['len'].t
                if self.ctx.decide(t < 0, 'symidx<0'):
                    t = t + n
                self.ctx.safe(z3.And(t >= 0, t < n), 'index-in-range')
                return symlist_elem(h, t)
            if h.kind == 'dict':
                return self.dict_get(h, idx, node)
            hook = self.reg.heap_hook(h.kind)
            if hook:
                return hook.index(self, base, idx, node)
        if isinstance(base, VModule) and base.name == 'os.environ':
            return self.call_extern('os.environ.__getitem__', [idx], {}, fr)
        if isinstance(base, (VNone, VInt, VBool, VReal, VClass)):
            self.ctx.oblige('safe.subscriptable', False, 'safe', 'line %s' % getattr(node, 'lineno', '?'))
            self.raise_exc('TypeError')
        raise Unsupported('subscript of %r' % (base,))

    def dict_get(self, h, key, node):
        if 'keys' in h.fields:
            for k, v in zip(h.fields['keys'], h.fields['vals']):
                if self.ctx.decide(S._b(self.veq(key, k)), 'dictkey'):
                    return v
            self.raise_exc('KeyError')
        raise Unsupported('symbolic dict lookup')

    def e_Call(self, node, fr):
        # super(X, self)
        fn = node.func
        if isinstance(fn, ast.Name) and fn.id == 'super':
            if len(node.args) == 2:
                c = self.eval(node.args[0], fr)
                o = self.eval(node.args[1], fr)
                after = c.name
            else:
                o = fr.locals.get('self')
                after = fr.cls
            recv = self.ctx.heap[o.oid].cls
            if recv not in self.prog.classes:
                recv = fr.recv_cls if hasattr(fr, 'recv_cls') else after
            return VFunc('super', self=o, after=after, recv_cls=recv)
        f = self.eval(fn, fr)
        args = []
        for a in node.args:
            if isinstance(a, ast.Starred):
                v = self.eval(a.value, fr)
                if isinstance(v, VTuple):
                    args.extend(v.items)
                elif isinstance(v, VObj) and self.ctx.heap[v.oid].kind == 'list':
                    args.extend(self.ctx.heap[v.oid].fields['items'])
                else:
                    raise Unsupported('*args of %r' % (v,))
            else:
                args.append(self.eval(a, fr))
        kwargs = {}
        for k in node.keywords:
            if k.arg is None:
                v = self.eval(k.value, fr)
                if isinstance(v, VObj) and self.ctx.heap[v.oid].kind == 'dict' and 'keys' in self.ctx.heap[v.oid].fields:
                    hh = self.ctx.heap[v.oid]
                    ok = True
                    for kk, vv in zip(hh.fields['keys'], hh.fields['vals']):
                        kz = z3.simplify(kk.t) if isinstance(kk, VStr) else None
                        if kz is None or not z3.is_string_value(kz):
                            ok = False
                            break
                        kwargs[kz.as_string()] = vv
                    if ok:
                        continue
                raise Unsupported('**kwargs call')
            kwargs[k.arg] = self.eval(k.value, fr)
        return self.call(f, args, kwargs, fr, node)

    def listcomp_unrolled(self, node, g, it, fr):
        """[elt for x in <symbolic list> if cond] with no contract: lists of up to UNROLL elements are followed exactly"""
        ctx = self.ctx
        ctx.trust('list comprehension over a symbolic list without a contract: followed for up to %d elements (refutations only)' % self.UNROLL)
        lo, hi = self.iter_bounds(it)
        out = []
        sub = Frame(fr.fi, fr.module, fr.cls, {}, fr.con, closure=fr)
        k = 0
        while ctx.decide(lo + k < hi, 'unrolled-comprehension'):
            if k >= self.UNROLL:
                raise Unsupported('list comprehension over a symbolic list has no contract (followed for %d elements)' % self.UNROLL)
            self.assign(g.target, self.iter_elem(it, z3.simplify(lo + k)), sub)
            k += 1
            keep = True
            for c in g.ifs:
                t = self.truth(self.eval(c, sub))
                if not (t if isinstance(t, bool) else ctx.decide(t, 'comprehension-filter')):
                    keep = False
                    break
            if keep:
                out.append(self.eval(node.elt, sub))
        return ctx.alloc(HObj('list', 'list', {'items': out}, closed=True))

    def e_ListComp(self, node, fr):
        if len(node.generators) != 1:
            raise Unsupported('list comprehension form')
        g = node.generators[0]
        it = self.eval(g.iter, fr)
        if g.ifs and not (isinstance(it, VObj) and self.ctx.heap[it.oid].kind == 'symlist'):
            raise Unsupported('list comprehension form')
        if isinstance(it, VObj) and self.ctx.heap[it.oid].kind in ('range', 'grid'):
            special = self.listcomp_symbolic(node, g, it, fr)
            if special is not None:
                return special
        if len(node.generators) == 1 and isinstance(it, VObj) and self.ctx.heap[it.oid].kind == 'symlist' and not g.ifs:
            try:
                return self.listcomp_with_contract(node, g, it, fr)
            except Unsupported as u:
                if 'needs a loop contract' not in str(u):
                    raise
        if isinstance(it, VObj) and self.ctx.heap[it.oid].kind == 'symlist':
            return self.listcomp_unrolled(node, g, it, fr)
        if isinstance(it, VStr):
            # iterating a string: nothing when it is empty; otherwise the element expression is evaluated for the
            # first character (an int for bytes) -- exact when that raises, outside the subset when it does not
            if self.ctx.decide(z3.Length(it.t) == 0, 'empty-string-iterated'):
                return self.ctx.alloc(HObj('list', 'list', {'items': []}, closed=True))
            first = VInt(z3.StrToCode(z3.SubString(it.t, 0, 1))) if it.kind == 'b' else VStr(z3.SubString(it.t, 0, 1), it.kind)
            sub = Frame(fr.fi, fr.module, fr.cls, {}, fr.con, closure=fr)
            self.assign(g.target, first, sub)
            self.eval(node.elt, sub)
            raise Unsupported('list comprehension over a non-empty string')
        items = self.concrete_items(it)
        out = []
        sub = Frame(fr.fi, fr.module, fr.cls, {}, fr.con, closure=fr)
        for x in items:
            self.assign(g.target, x, sub)
            out.append(self.eval(node.elt, sub))
        return self.ctx.alloc(HObj('list', 'list', {'items': out}, closed=True))

    e_GeneratorExp = e_ListComp

    def listcomp_with_contract(self, node, g, it, fr):
        """[elt for x in <symbolic list>]: the loop `_compN = []; for x in it: _compN.append(elt)` cut by the loop
        contract the function's contract gives for comprehension N (Contract.comps, numbered in source order)."""
        con = fr.con
        comps = [n for n in ast.walk(fr.fi.node) if isinstance(n, ast.ListComp)] if fr.fi is not None else []
        comps.sort(key=lambda n: (n.lineno, n.col_offset))
        idx = comps.index(node) if node in comps else None
        spec = getattr(con, 'comps', {}).get(idx) if con is not None and idx is not None else None
        if spec is None:
            raise Unsupported('list comprehension #%s over a symbolic list in %s needs a loop contract' % (idx, fr.fi.qual if fr.fi else '?'))
        acc = '_comp%d' % idx
        fr.locals[acc] = self.ctx.alloc(HObj('list', 'list', {'items': []}, closed=True))
        body = ast.Expr(ast.Call(func=ast.Attribute(value=ast.Name(acc, ast.Load()), attr='append', ctx=ast.Load()),
                                 args=[node.elt], keywords=[]))
        loop = ast.For(target=g.target, iter=g.iter, body=[body], orelse=[], type_comment=None)
        ast.copy_location(loop, node)
        ast.fix_missing_locations(loop)
        saved = {n.id: fr.locals.get(n.id) for n in ast.walk(g.target) if isinstance(n, ast.Name)}
        self.run_loop(loop, fr, spec, 100 + idx, kind='for', iterable=it)
        for k, val in saved.items():            # the comprehension variable does not leak
            if val is None:
                fr.locals.pop(k, None)
            else:
                fr.locals[k] = val
        return fr.locals.pop(acc)

    def listcomp_symbolic(self, node, g, it, fr):
        """[[X] * n for _ in range(m)]  ->  grid;   [''.join(row) for row in GRID]  ->  row texts"""
        ctx = self.ctx
        h = ctx.heap[it.oid]
        hook = self.reg.heap_hook('grid')
        sub = Frame(fr.fi, fr.module, fr.cls, {}, fr.con, closure=fr)
        if h.kind == 'range':
            lo, hi = z3.simplify(h.fields['lo'].t), z3.simplify(h.fields['hi'].t)
            if z3.is_int_value(lo) and z3.is_int_value(hi):
                return None
            if isinstance(g.target, ast.Name):
                sub.locals[g.target.id] = VInt(ctx._const('compvar', z3.IntSort()))
            elt = self.eval(node.elt, sub)
            if isinstance(elt, VObj) and ctx.heap[elt.oid].kind == 'replist':
                eh = ctx.heap[elt.oid]
                item = eh.fields['item']
                if isinstance(item, VStr):
                    return hook.from_template(self, z3.simplify(hi - lo), item, eh.fields['n'].t)
            raise Unsupported('list comprehension over a symbolic range')
        # over a grid
        from .grid import VRow
        k = ctx._const('comprow', z3.IntSort())
        self.assign(g.target, VRow(it.oid, k), sub)
        elt = self.eval(node.elt, sub)
        expect = hook.row_text(self, VRow(it.oid, k))
        if isinstance(elt, VStr) and elt.t.eq(expect.t):
            return ctx.alloc(HObj('list', 'rowtexts', {'grid': dict(h.fields)}, closed=True))
        raise Unsupported('list comprehension over the grid')

    def concrete_items(self, it):
        if isinstance(it, VTuple):
            return list(it.items)
        if isinstance(it, VObj):
            h = self.ctx.heap[it.oid]
            if h.kind == 'list':
                return list(h.fields['items'])
            if h.kind == 'listiter':
                return list(h.fields['items'])
            if h.kind == 'enumerate':
                return [VTuple([VInt(i), x]) for i, x in enumerate(self.concrete_items(h.fields['inner']))]
        raise Unsupported('iteration over %r needs a loop contract' % (it,))

    def e_Lambda(self, node, fr):
        return VFunc('closure', node=node, env=fr, module=fr.module, cls=fr.cls)

    def e_Await(self, node, fr):
        return self.eval(node.value, fr)

    def e_Starred(self, node, fr):
        raise Unsupported('starred expression')

    # =====================================================================================
    # calls
    # =====================================================================================
    def call(self, f, args, kwargs, fr, node=None):
        from . import models
        ctx = self.ctx
        if isinstance(f, VOpt):
            f = self.unopt(f, 'callee')
        if isinstance(f, VFunc):
            k = f.kind
            if k == 'builtin':
                return models.call_builtin(self, f.name, args, kwargs, fr, node)
            if k == 'bound_builtin':
                return models.call_bound(self, f.name, f.self, args, kwargs, fr, node)
            if k == 'method':
                return self.call_function(f.fi, [f.self] + args, kwargs, fr, recv_cls=f.recv_cls)
            if k == 'function':
                return self.call_function(f.fi, args, kwargs, fr)
            if k == 'closure':
                return self.call_closure(f, args, kwargs, fr)
            if k == 'iface':
                return self.call_iface(f, args, kwargs, fr)
            if k == 'extern':
                return self.call_extern(f.name, args, kwargs, fr)
            if k == 'opaque_attr':
                return self.call_extern('opaque.' + f.name, [f.base] + args, kwargs, fr)
        if isinstance(f, VClass):
            return models.call_class(self, f, args, kwargs, fr, node)
        if isinstance(f, VAny):
            return self.call_extern('opaque.__call__', [f] + args, kwargs, fr)
        if isinstance(f, VObj) and self.ctx.heap[f.oid].cls == 'function':
            return self.call_extern('callback', [f] + args, kwargs, fr)
        raise Unsupported('call of %r (line %s)' % (f, getattr(node, 'lineno', '?')))

    def bind_params(self, fi_node, args, kwargs, fr_for_defaults, what):
        a = fi_node.args
        params = [p.arg for p in a.posonlyargs + a.args]
        bound = {}
        if len(args) > len(params) and a.vararg is None:
            raise Unsupported('too many positional arguments for %s' % what)
        for p, v in zip(params, args):
            bound[p] = v
        if a.vararg is not None:
            bound[a.vararg.arg] = VTuple(args[len(params):])
        extra = {}
        for k, v in kwargs.items():
            if k in params or k in [p.arg for p in a.kwonlyargs]:
                bound[k] = v
            elif a.kwarg is not None:
                extra[k] = v
            else:
                raise Unsupported('unexpected keyword %s for %s' % (k, what))
        if a.kwarg is not None:
            keys = [VStr(k, 's') for k in extra]
            bound[a.kwarg.arg] = self.ctx.alloc(HObj('dict', 'dict', {'keys': keys, 'vals': list(extra.values())}, closed=True))
        defaults = a.defaults
        for p, d in zip(params[len(params) - len(defaults):], defaults):
            if p not in bound:
                bound[p] = self.eval(d, fr_for_defaults)
        for p, d in zip(a.kwonlyargs, a.kw_defaults):
            if p.arg not in bound and d is not None:
                bound[p.arg] = self.eval(d, fr_for_defaults)
        for p in params:
            if p not in bound:
                raise Unsupported('missing argument %s for %s' % (p, what))
        return bound

    def call_function(self, fi, args, kwargs, fr, recv_cls=None):
        """Call of a function defined in the program: by contract, or inlined if declared inline."""
        if fi.is_ctxmgr:
            modfr = Frame(fi, fi.module, fi.cls, {}, None)
            bound = self.bind_params(fi.node, args, kwargs, modfr, fi.qual)
            return self.ctx.alloc(HObj('ctxmgr', 'ctxmgr', {'fi': fi, 'bound': bound, 'recv_cls': recv_cls}, closed=True))
        if recv_cls is None and fi.cls and args and isinstance(args[0], VObj) and not fi.is_static:
            c0 = self.ctx.heap[args[0].oid].cls         # Class.method(obj, ...): the receiver is obj
            if c0 in self.prog.classes and self.prog.is_subclass(c0, fi.cls):
                recv_cls = c0
        con = self.reg.contract_for(fi.qual, recv_cls)
        modfr = Frame(fi, fi.module, fi.cls, {}, None)
        bound = self.bind_params(fi.node, args, kwargs, modfr, fi.qual)
        if con is not None and not getattr(con, 'inline', False):
            return self.apply_contract(con, bound, fr, fi.qual)
        if con is None and not self.reg.may_inline(fi.qual):
            # contract-less helpers without loops are inlined (reported in the evidence as inlined)
            if any(isinstance(n, (ast.For, ast.While, ast.AsyncFor)) for n in ast.walk(fi.node)):
                raise Unsupported('call to %s: no contract and not declared inline' % fi.qual)
            self.ctx.trust('inlined (no contract, loop-free): ' + fi.qual)
        return self.inline(fi, bound, con, recv_cls)

    def inline(self, fi, bound, con, recv_cls=None):
        ctx = self.ctx
        if ctx.depth > 12:
            raise Unsupported('inline depth')
        fr = Frame(fi, fi.module, fi.cls, dict(bound), con)
        fr.recv_cls = recv_cls
        fr.pre_heap = ctx.snapshot()
        fr.pre_args = dict(bound)
        fr.pre_ghost = dict(ctx.ghost)
        ctx.depth += 1
        try:
            self.exec_block(fi.node.body, fr)
            return VNone()
        except _Return as r:
            return r.value
        finally:
            ctx.depth -= 1

    def call_closure(self, f, args, kwargs, fr):
        node = f.node
        cfr = Frame(f.env.fi, f.module, f.cls, {}, f.env.con, closure=f.env)
        bound = self.bind_params(node, args, kwargs, f.env, 'closure')
        cfr.locals.update(bound)
        cfr.pre_heap, cfr.pre_args, cfr.pre_ghost = f.env.pre_heap, f.env.pre_args, f.env.pre_ghost
        if isinstance(node, ast.Lambda):
            return self.eval(node.body, cfr)
        try:
            self.exec_block(node.body, cfr)
            return VNone()
        except _Return as r:
            return r.value

    def call_iface(self, f, args, kwargs, fr):
        con = self.reg.iface_contract(f.cls, f.name)
        if con is None:
            raise Unsupported('no interface contract for %s.%s' % (f.cls, f.name))
        bound = con.bind([f.self] + args, kwargs, self)
        return self.apply_contract(con, bound, fr, '%s.%s' % (f.cls, f.name))

    def call_extern(self, name, args, kwargs, fr):
        if name == 'copy.deepcopy' and len(args) == 1 and isinstance(args[0], VObj) \
                and self.ctx.heap[args[0].oid].kind == 'grid':
            return self.reg.heap_hook('grid').deepcopy(self, args[0])
        con = self.reg.extern_contract(name)
        if con is None:
            if name.startswith('opaque.') or not self.reg.allow_unknown_externs:
                raise Unsupported('external call %s has no assumed contract' % name)
            # an external function nothing is known about: an arbitrary result, no effect on the program's own
            # state (over-approximates the value; listed in the evidence as unmodelled)
            self.ctx.trust('unmodelled external call %s: arbitrary result, assumed not to touch pexpect objects' % name)
            return VAny(self.ctx._const('ext.' + name.replace('.', '_'), Val))
        bound = con.bind(args, kwargs, self)
        self.ctx.trust('assumed contract: ' + name)
        self._handling = getattr(fr, 'handling', None)
        return self.apply_contract(con, bound, fr, name)

    def to_str_call(self, v, fr):
        """str(v) / '%s' % v : totality matters, the text does not."""
        if isinstance(v, VObj):
            h = self.ctx.heap[v.oid]
            if h.cls in self.prog.classes:
                fi = self.prog.find_method(h.cls, '__str__')
                if fi is not None:
                    return self.call_function(fi, [v], {}, fr, recv_cls=h.cls)
            if h.cls.startswith('iface:'):
                con = self.reg.iface_contract(h.cls, '__str__')
                if con is not None:
                    return self.apply_contract(con, con.bind([v], {}, self), fr, h.cls + '.__str__')
        if isinstance(v, VStr) and v.kind == 's':
            return v
        return VStr(self.ctx._const('str', z3.StringSort()), 's')

    # ---- contract application at a call site -----------------------------------------------
    def apply_contract(self, con, bound, fr, what):
        ctx = self.ctx
        # a resolved alternative of a union is seen as the union again by a contract that declares the parameter so
        up = getattr(con, 'union_params', ())
        bound = {k: (x.origin if (k in up and getattr(x, 'origin', None) is not None) else x) for k, x in bound.items()}
        pre_heap = ctx.snapshot()
        pre_ghost = dict(ctx.ghost)
        pre = ContractView(ctx, pre_heap, pre_heap, bound, pre_ghost)
        pre.g = dict(pre_ghost)
        short = what.split('.')[-1]
        for cid, f in con.requires(pre):
            ctx.oblige('pre@call.%s.%s' % (short, cid), f, 'pre@call', what)
        outs = con.outcomes(pre)
        k = ctx.choose(len(outs), 'outcome:' + what)
        out = outs[k]
        for (view, field, ty) in con.modifies(pre, out):
            self.havoc_field(view, field, ty, what)
        result, raised, excv = VNone(), None, None
        if out.kind == 'ret':
            result = out.make(self, pre) if out.make else ctx.fresh(out.ty, short + '.ret')
        else:
            raised = out.exc
            excv = ctx.new_exc(out.exc, [])
        post_heap = ctx.snapshot()
        post = ContractView(ctx, pre_heap, post_heap, bound, pre_ghost, result=to_spec(ctx, post_heap, result),
                            raised=raised, label=out.label, result_v=result, exc=excv)
        post.what = short
        post.interp = self
        con.effects(post)               # may update the live ghost state (post.g is ctx.ghost here)
        post.g = dict(ctx.ghost)        # ... and from here on the view is frozen
        # vacuity bookkeeping first: an outcome whose postcondition is plainly false ends the path inside assume_spec
        site = '%s@%s' % (what, getattr(fr.fi, 'qual', '?') if fr is not None and fr.fi is not None else '?')
        st = ctx.callsites.setdefault(site, [0, 0])
        st[0] += 1
        for cid, f in con.ensures(post):
            ctx.assume_spec(f)
        if (ctx.qhyps or ctx.qhyps2):
            ctx.instantiate([])
        if not ctx.feasible():
            raise Infeasible()
        st[1] += 1
        ctx.path_tags.append(('outcome:' + what, out.label))
        if out.kind == 'raise':
            raise PyExc(excv)
        return result

    def havoc_field(self, view, field, ty, what):
        ctx = self.ctx
        h = ctx.heap[view._oid]
        if h.kind == 'grid':
            from .grid import CellArr, IntArr
            h.fields[field] = z3.Const(ctx.fresh_name('%s.%s' % (what.split('.')[-1], field)),
                                       CellArr if field == 'cell' else IntArr)
            return
        if h.kind == 'io' and field in ('content', 'pos'):
            old = h.fields[field]
            h.fields[field] = ctx.fresh(TStr(old.kind) if field == 'content' else T.Int, '%s.%s' % (what.split('.')[-1], field))
            return
        h.fields[field] = ctx.fresh(ty, '%s.%s' % (what.split('.')[-1], field))

    # =====================================================================================
    # statements
    # =====================================================================================
    def exec_block(self, stmts, fr):
        for s in stmts:
            self.exec(s, fr)

    def exec(self, node, fr):
        m = getattr(self, 's_' + type(node).__name__, None)
        if m is None:
            raise Unsupported('statement %s at line %d' % (type(node).__name__, node.lineno))
        return m(node, fr)

    def s_Expr(self, node, fr):
        if isinstance(node.value, ast.Constant):
            return      # docstring
        self.eval(node.value, fr)

    def s_Pass(self, node, fr):
        pass

    def s_Global(self, node, fr):
        raise Unsupported('global statement')

    def s_Import(self, node, fr):
        for a in node.names:
            fr.locals[a.asname or a.name.split('.')[0]] = VModule(a.name)

    def s_ImportFrom(self, node, fr):
        base = 'pexpect' + ('.' + node.module if node.module else '') if node.level else node.module
        for a in node.names:
            fr.locals[a.asname or a.name] = self.resolve_qual(base + '.' + a.name)

    def s_Assign(self, node, fr):
        v = self.eval(node.value, fr)
        for t in node.targets:
            self.assign(t, v, fr)

    def s_AnnAssign(self, node, fr):
        if node.value is not None:
            self.assign(node.target, self.eval(node.value, fr), fr)

    def s_AugAssign(self, node, fr):
        cur = self.eval(ast_load(node.target), fr)
        v = self.binop(node.op, cur, self.eval(node.value, fr), fr, node)
        self.assign(node.target, v, fr)

    def assign(self, target, v, fr):
        ctx = self.ctx
        if isinstance(target, ast.Name):
            f = fr
            # python closures: plain assignment binds in the innermost frame
            fr.locals[target.id] = v
            return
        if isinstance(target, (ast.Tuple, ast.List)):
            items = self.unpack(v, len(target.elts))
            for t, x in zip(target.elts, items):
                self.assign(t, x, fr)
            return
        if isinstance(target, ast.Attribute):
            base = self.eval(target.value, fr)
            base = self.unopt(base, 'attribute assignment base')
            if isinstance(base, VAny) and str(base.t).startswith('ext.'):
                # an attribute of an object made by an unmodelled library call (thread.daemon = True): no effect on
                # pexpect's own state
                self.ctx.trust('attribute %s set on the result of an unmodelled external call: ignored' % target.attr)
                return
            if not isinstance(base, VObj):
                raise Unsupported('attribute assignment on %r' % (base,))
            h = ctx.heap[base.oid]
            if h.cls in self.prog.classes:
                pr = self.prog.find_property(h.cls, target.attr)
                if pr is not None:
                    c, (g, s) = pr
                    if s is None:
                        self.raise_exc('AttributeError')
                    fi = self.prog.find_method(h.cls, s)
                    self.call_function(fi, [base, v], {}, fr, recv_cls=h.cls)
                    return
            h.fields[mangle(target.attr, fr)] = v
            return
        if isinstance(target, ast.Subscript):
            base = self.eval(target.value, fr)
            if type(base).__name__ == 'VRow':
                return self.reg.heap_hook('grid').row_set(self, base, self.eval(target.slice, fr), v, target)
            if isinstance(base, VObj):
                h = ctx.heap[base.oid]
                hook = self.reg.heap_hook(h.kind)
                if hook:
                    return hook.assign_sub(self, base, target, v, fr)
                if h.kind == 'list' and not isinstance(target.slice, ast.Slice):
                    k = self.concrete_int(self.eval(target.slice, fr), None)
                    h.fields['items'][k] = v
                    return
                if h.kind == 'symlist' and h.fields.get('scalar') and not h.fields.get('pat') and not h.fields.get('union') \
                        and not isinstance(target.slice, ast.Slice) and len(h.fields['comps']) == 1 and hasattr(v, 't'):
                    # lst[i] = x on a symbolic list of scalars: a store into its element array (index must be in range)
                    idx = self.as_int(self.eval(target.slice, fr), 'list index')
                    n = h.fields['len'].t
                    pos = z3.If(idx < 0, idx + n, idx)
                    if not ctx.decide(z3.And(pos >= 0, pos < n), 'index-in-range'):
                        ctx.oblige('safe.list-index-in-range', False, 'safe', 'line %s' % getattr(target, 'lineno', '?'))
                        self.raise_exc('IndexError')
                    (arr, ty), = h.fields['comps']
                    if v.t.sort() == arr.sort().range():
                        h.fields['comps'] = [(z3.Store(arr, pos, v.t), ty)]
                        return
                if h.kind == 'dict' and 'keys' in h.fields:
                    key = self.eval(target.slice, fr)
                    for i, kx in enumerate(h.fields['keys']):
                        e = self.veq(key, kx)
                        if e is True or (not isinstance(e, bool) and self.ctx.entails(e)):
                            h.fields['vals'][i] = v
                            return
                    h.fields['keys'].append(key)
                    h.fields['vals'].append(v)
                    return
            raise Unsupported('subscript assignment on %r' % (base,))
        raise Unsupported('assignment target %s' % type(target).__name__)

    def unpack(self, v, n):
        if isinstance(v, VTuple):
            items = v.items
        elif isinstance(v, VObj) and self.ctx.heap[v.oid].kind == 'list':
            items = self.ctx.heap[v.oid].fields['items']
        else:
            raise Unsupported('unpacking %r' % (v,))
        if len(items) != n:
            self.raise_exc('ValueError')
        return items

    def s_Delete(self, node, fr):
        for t in node.targets:
            if isinstance(t, ast.Name):
                fr.locals.pop(t.id, None)
            elif isinstance(t, ast.Attribute):
                base = self.eval(t.value, fr)
                self.ctx.heap[base.oid].fields.pop(t.attr, None)
            else:
                raise Unsupported('del target')

    def s_Return(self, node, fr):
        v = self.eval(node.value, fr) if node.value is not None else VNone()
        raise _Return(v)

    def s_If(self, node, fr):
        pr = platform_test(node.test)
        if pr is not None:
            self.prog.pruned.append('%s:%d' % (fr.fi.path if fr.fi else '?', node.lineno))
            self.exec_block(node.body if pr else node.orelse, fr)
            return
        taken = self.decide_truth(self.eval(node.test, fr), 'if@%d' % node.lineno)
        self.narrow(node.test, taken, fr)
        if taken:
            self.exec_block(node.body, fr)
        else:
            self.exec_block(node.orelse, fr)

    def narrow(self, test, taken, fr):
        """`x is None` / `x is not None` decided on this path: give the local its narrowed value."""
        if isinstance(test, ast.Compare) and len(test.ops) == 1 and isinstance(test.left, ast.Name) \
                and isinstance(test.comparators[0], ast.Constant) and test.comparators[0].value is None \
                and isinstance(test.ops[0], (ast.Is, ast.IsNot)):
            name = test.left.id
            v = fr.locals.get(name)
            if isinstance(v, VOpt):
                is_none = taken if isinstance(test.ops[0], ast.Is) else (not taken)
                fr.locals[name] = VNone() if is_none else v.inner

    def s_Assert(self, node, fr):
        t = self.truth(self.eval(node.test, fr))
        if not self.ctx.decide(S._b(t), 'assert@%d' % node.lineno):
            self.raise_exc('AssertionError')

    def s_Raise(self, node, fr):
        if node.exc is None:
            cur = getattr(fr, 'handling', None)
            if cur is None:
                raise Unsupported('bare raise outside handler')
            raise PyExc(cur)
        v = self.eval(node.exc, fr)
        if isinstance(v, VClass):
            v = self.ctx.new_exc(v.name, [])
        if isinstance(v, VObj) and self.ctx.heap[v.oid].kind == 'exc':
            raise PyExc(v)
        raise Unsupported('raise of %r' % (v,))

    def s_Break(self, node, fr):
        raise _Break()

    def s_Continue(self, node, fr):
        raise _Continue()

    def s_FunctionDef(self, node, fr):
        fr.locals[node.name] = VFunc('closure', node=node, env=fr, module=fr.module, cls=fr.cls)

    s_AsyncFunctionDef = s_FunctionDef

    def s_Try(self, node, fr):
        try:
            try:
                self.exec_block(node.body, fr)
            except PyExc as pe:
                h = self.ctx.heap[pe.exc.oid]
                for handler in node.handlers:
                    if self.handler_matches(handler, h.cls, fr):
                        if handler.name:
                            fr.locals[handler.name] = pe.exc
                        prev = getattr(fr, 'handling', None)
                        fr.handling = pe.exc
                        try:
                            self.exec_block(handler.body, fr)
                        finally:
                            fr.handling = prev
                        break
                else:
                    raise
            else:
                self.exec_block(node.orelse, fr)
        except (PyExc, _Return, _Break, _Continue):
            self.exec_block(node.finalbody, fr)
            raise
        else:
            self.exec_block(node.finalbody, fr)

    def handler_matches(self, handler, clsname, fr):
        if handler.type is None:
            return True
        t = self.eval(handler.type, fr)
        classes = t.items if isinstance(t, VTuple) else [t]
        for c in classes:
            if isinstance(c, VClass) and exc_is_a(clsname, c.name):
                return True
        return False

    def e_Yield(self, node, fr):
        cb = getattr(fr, 'yield_cb', None)
        if cb is None:
            raise Unsupported('yield outside a @contextmanager function used in a with statement')
        v = self.eval(node.value, fr) if node.value is not None else VNone()
        cb(v)
        return VNone()

    def s_With(self, node, fr):
        if len(node.items) != 1:
            raise Unsupported('multi-item with')
        item = node.items[0]
        cm = self.eval(item.context_expr, fr)
        if isinstance(cm, VObj) and self.ctx.heap[cm.oid].kind == 'ctxmgr':
            # @contextmanager generator: its body runs with the with-block spliced in at the yield, so
            # exceptions of the block surface at the yield exactly as in Python
            h = self.ctx.heap[cm.oid]
            fi = h.fields['fi']
            gfr = Frame(fi, fi.module, fi.cls, dict(h.fields['bound']), self.reg.contract_for(fi.qual))
            gfr.recv_cls = h.fields['recv_cls']
            gfr.pre_heap, gfr.pre_args, gfr.pre_ghost = fr.pre_heap, fr.pre_args, fr.pre_ghost
            done = []

            def at_yield(v):
                done.append(1)
                if item.optional_vars is not None:
                    self.assign(item.optional_vars, v, fr)
                self.exec_block(node.body, fr)
            gfr.yield_cb = at_yield
            try:
                self.exec_block(fi.node.body, gfr)
            except _Return as r:
                if getattr(r, 'from_with_body', False) or done:
                    # a return travelling out of the with-block (through the generator's finally clauses)
                    if r.__dict__.get('gen_return'):
                        return
                    raise
            return
        hook = self.reg.with_hook(self, cm)
        if hook is None:
            raise Unsupported('with statement over %r' % (cm,))
        val = hook.enter(self, cm, fr)
        if item.optional_vars is not None:
            self.assign(item.optional_vars, val, fr)
        try:
            self.exec_block(node.body, fr)
        except (PyExc, _Return, _Break, _Continue):
            hook.exit(self, cm, fr, exceptional=True)
            raise
        hook.exit(self, cm, fr, exceptional=False)

    # ---- loops ---------------------------------------------------------------------------------
    def loop_spec(self, fr, node):
        ordinal = fr.loop_ord_of(node) if hasattr(fr, 'loop_ord_of') else None
        con = fr.con
        idx = loop_ordinal(fr.fi.node, node) if fr.fi is not None else None
        if con is not None and idx is not None:
            return con.loops.get(idx), idx
        return None, idx

    UNROLL = int(os.environ.get('VERIF_UNROLL', '2'))

    def s_While(self, node, fr):
        spec, idx = self.loop_spec(fr, node)
        if spec is None:
            return self.unroll_loop(node, fr, idx, 'while')
        self.run_loop(node, fr, spec, idx, kind='while')

    def unroll_loop(self, node, fr, idx, kind, iterable=None):
        """A loop the sidecar has no contract for (code that changed since the contracts were written): the paths
        that leave it within UNROLL iterations are followed exactly - what fails on them is a real counterexample
        path - and every longer path is reported as outside the contracts (undecided, never proved)."""
        ctx = self.ctx
        where = '%s loop #%s in %s' % (kind, idx, fr.fi.qual if fr.fi else '?')
        ctx.trust('no loop contract for %s: followed for up to %d iterations (refutations only; nothing is proved about longer runs)' % (where, self.UNROLL))
        if kind == 'for':
            lo, hi = self.iter_bounds(iterable)
        k = 0
        while True:
            if kind == 'while':
                t = self.truth(self.eval(node.test, fr))
                more = t if isinstance(t, bool) else ctx.decide(t, 'unrolled-while')
            else:
                more = ctx.decide(lo + k < hi, 'unrolled-for')
            if not more:
                self.exec_block(node.orelse, fr)
                return
            if k >= self.UNROLL:
                raise Unsupported('%s has no loop contract (followed for %d iterations)' % (where, self.UNROLL))
            if kind == 'for':
                self.assign(node.target, self.iter_elem(iterable, z3.simplify(lo + k)), fr)
            k += 1
            try:
                self.exec_block(node.body, fr)
            except _Break:
                return
            except _Continue:
                continue

    def s_For(self, node, fr):
        spec, idx = self.loop_spec(fr, node)
        it = self.eval(node.iter, fr)
        if spec is not None and getattr(spec, 'unroll_concrete', False):
            # a list whose elements are all known on this path is iterated exactly; the loop contract is for the symbolic list
            try:
                if not any(isinstance(x, VHidden) for x in self.concrete_items(it)):
                    spec = None
            except Unsupported:
                pass
        if spec is None:
            # concrete iteration: unroll
            try:
                items = self.concrete_items(it)
            except Unsupported:
                if isinstance(it, VObj) and self.ctx.heap[it.oid].kind == 'range':
                    try:
                        items = self.concrete_range(it)
                    except Unsupported:
                        return self.unroll_loop(node, fr, idx, 'for', iterable=it)
                else:
                    return self.unroll_loop(node, fr, idx, 'for', iterable=it)
            broke = False
            for x in items:
                self.assign(node.target, x, fr)
                try:
                    self.exec_block(node.body, fr)
                except _Break:
                    broke = True
                    break
                except _Continue:
                    continue
            if not broke:
                self.exec_block(node.orelse, fr)
            return
        self.run_loop(node, fr, spec, idx, kind='for', iterable=it)

    def concrete_range(self, it):
        h = self.ctx.heap[it.oid]
        lo, hi = z3.simplify(h.fields['lo'].t), z3.simplify(h.fields['hi'].t)
        if z3.is_int_value(lo) and z3.is_int_value(hi):
            return [VInt(k) for k in range(lo.as_long(), hi.as_long())]
        raise Unsupported('symbolic range without loop contract')

    def run_loop(self, node, fr, spec, idx, kind, iterable=None):
        """Cut the loop with its invariant: init obligation, havoc, assume, then one arbitrary
        iteration (ends in the step obligation) or the exit."""
        ctx = self.ctx
        fq = fr.fi.qual.split('.')[-1]
        lid = '%s.loop%d' % (fq, idx)
        ghost_i = None
        if kind == 'for':
            ghost_i = '_i%d' % idx
            fr.locals[ghost_i] = VInt(self.iter_start(iterable))
        entry_heap = ctx.snapshot()
        entry_locals = dict(fr.locals)
        sv = StateView(ctx, fr)
        sv.entry = LocalsView(ctx, entry_heap, entry_locals)
        sv.iter = iterable
        try:
            # a contract that declares a loop-carried local the function does not have (any more) speaks about other code
            declared = spec.vars(sv) if callable(spec.vars) else spec.vars
            have = function_names(fr.fi.node) if fr.fi is not None else None
            if have is not None:
                for name in declared:
                    if not name.startswith('_') and name not in have:
                        raise AttributeError('spec view: no local/arg named %s (declared by the loop contract)' % name)
            inv0 = spec.invariant(sv)
        except AttributeError as e:
            if 'no local/arg named' not in str(e):
                raise
            # the loop contract speaks about a local this code does not have (the code changed): it cannot be applied.
            # If the contract maintains ghost witnesses itself (ghost_step), following the loop without it would leave
            # them stale and make later clauses fail for no semantic reason: that case stays undecided.
            if getattr(spec, 'ghost_step', None) is not None:
                raise Unsupported('loop contract of %s is not applicable to this code (%s)' % (lid, e))
            ctx.trust('loop contract of %s not applicable (%s)' % (lid, e))
            if ghost_i is not None:
                fr.locals.pop(ghost_i, None)
            return self.unroll_loop(node, fr, idx, kind, iterable=iterable)
        for cid, f in inv0:
            ctx.oblige('%s.inv-init.%s' % (lid, cid), f, 'inv-init', lid)
        # havoc
        lvars = spec.vars(sv) if callable(spec.vars) else spec.vars
        implicit_none = []
        for name, ty in lvars.items():
            fr.locals[name] = ctx.fresh(ty, '%s.%s' % (lid, name))
        # every other local the loop body assigns is forgotten too (same type as before the loop, or unbound)
        for name in assigned_names(node):
            if name in lvars or name.startswith('_i'):
                continue
            cur = fr.locals.get(name)
            ty = type_of_value(cur)
            if isinstance(cur, VNone):
                implicit_none.append(name)      # implicit invariant "stays None", re-checked at the back edge
            elif ty is None:
                fr.locals.pop(name, None)
            else:
                fr.locals[name] = ctx.fresh(ty, '%s.%s' % (lid, name))
        if ghost_i:
            fr.locals[ghost_i] = ctx.fresh(T.Int, lid + '.i')
        pre_sv = StateView(ctx, fr)
        pre_sv.entry = sv.entry
        for (view, field, ty) in spec.modifies(pre_sv):
            self.havoc_field(view, field, ty, lid)
        gh = spec.ghost(pre_sv) if callable(getattr(spec, 'ghost', None)) else getattr(spec, 'ghost', {})
        for gname, ty in gh.items():
            ctx.ghost[gname] = to_spec(ctx, ctx.heap, ctx.fresh(ty, '%s.g.%s' % (lid, gname)))
        sv2 = StateView(ctx, fr)
        sv2.entry = sv.entry
        sv2.iter = iterable
        for cid, f in spec.invariant(sv2):
            ctx.assume_spec(f)
        if kind == 'for':
            i = fr.locals[ghost_i].t
            lo, hi = self.iter_bounds(iterable)
            ctx.assume(z3.And(i >= lo, i <= hi))
            go = ctx.decide(i < hi, '%s.more' % lid)
        else:
            go = self.decide_truth(self.eval(node.test, fr), '%s.cond' % lid)
        if not ctx.feasible():
            raise Infeasible()
        if go:
            variant0 = spec.variant(sv2) if hasattr(spec, 'variant') else None
            if kind == 'for':
                self.assign(node.target, self.iter_elem(iterable, fr.locals[ghost_i].t), fr)
            try:
                self.exec_block(node.body, fr)
            except _Continue:
                pass
            except _Break:
                return      # continues after the loop with the state at the break
            if kind == 'for':
                fr.locals[ghost_i] = VInt(z3.simplify(fr.locals[ghost_i].t + 1))
            if hasattr(spec, 'ghost_step'):
                sv_end = StateView(ctx, fr)
                sv_end.entry = sv.entry
                sv_end.g = ctx.ghost           # live: the ghost step updates it
                spec.ghost_step(sv2, sv_end)
            sv3 = StateView(ctx, fr)
            sv3.entry = sv.entry
            sv3.iter = iterable
            for cid, f in spec.invariant(sv3):
                ctx.oblige('%s.inv-step.%s' % (lid, cid), f, 'inv-step', lid)
            for name in implicit_none:
                ctx.oblige('%s.inv-step.implicit.%s-stays-None' % (lid, name), isinstance(fr.locals.get(name), VNone),
                           'inv-step', lid)
            if variant0 is not None:
                v1 = spec.variant(sv3)
                ctx.oblige('%s.variant' % lid, z3.And(variant0 >= 0, v1 < variant0), 'variant', lid)
            raise _PathStop()
        self.exec_block(node.orelse, fr)

    def iter_start(self, it):
        if isinstance(it, VObj) and self.ctx.heap[it.oid].kind == 'range':
            if self.ctx.heap[it.oid].fields.get('step', 1) == -1:
                return z3.IntVal(0)
            return self.ctx.heap[it.oid].fields['lo'].t
        return z3.IntVal(0)

    def iter_bounds(self, it):
        if isinstance(it, VObj):
            h = self.ctx.heap[it.oid]
            if h.kind == 'symlist':
                return z3.IntVal(0), h.fields['len'].t
            if h.kind == 'range':
                if h.fields.get('step', 1) == -1:
                    return z3.IntVal(0), z3.simplify(h.fields['lo'].t - h.fields['hi'].t)
                return h.fields['lo'].t, h.fields['hi'].t
            if h.kind == 'enumerate':
                return self.iter_bounds(h.fields['inner'])
            if h.kind == 'list':
                return z3.IntVal(0), z3.IntVal(len(h.fields['items']))
        if isinstance(it, VStr):
            return z3.IntVal(0), z3.Length(it.t)
        raise Unsupported('loop contract over %r' % (it,))

    def iter_elem(self, it, i):
        if isinstance(it, VObj):
            h = self.ctx.heap[it.oid]
            if h.kind == 'symlist':
                return symlist_elem(h, i)
            if h.kind == 'range':
                if h.fields.get('step', 1) == -1:
                    return VInt(z3.simplify(h.fields['lo'].t - i))
                return VInt(i)
            if h.kind == 'enumerate':
                return VTuple([VInt(i), self.iter_elem(h.fields['inner'], i)])
        if isinstance(it, VStr):
            if it.kind == 'b':
                return VInt(z3.StrToCode(z3.SubString(it.t, i, 1)))
            return VStr(z3.SubString(it.t, i, 1), it.kind)
        raise Unsupported('element of %r' % (it,))


class ContractView:
    """pre/post view handed to contract clauses at call sites and at function exit."""
    def __init__(self, ctx, old_heap, new_heap, args, ghost0, result=None, raised=None, label=None,
                 result_v=None, exc=None):
        self.ctx = ctx
        self.old = LocalsView(ctx, old_heap, args)
        self.new = LocalsView(ctx, new_heap, args)
        self.a = self.old
        self.g = ctx.ghost
        self.g0 = ghost0
        self.result = result
        self.raised = raised
        self.label = label
        self.result_v = result_v
        self.exc = exc
        self.args_v = args
        self.trace = ctx.trace
        self.what = ''
        self.concrete = False

    def view(self, value, new=False):
        """spec view of a raw value (e.g. an object kept in ghost state) in the pre (default) or post state"""
        lv = self.new if new else self.old
        return to_spec(self.ctx, lv._heap, value)

    def draw(self, ty, hint):
        """A fresh value of the given type (existential witness of an assumed contract)."""
        return to_spec(self.ctx, self.ctx.heap, self.ctx.fresh(ty, '%s.%s' % (self.what, hint) if self.what else hint))


def function_names(fnode):
    """every name the function binds: parameters and assignment / loop / with / except targets"""
    names = set()
    for a in list(fnode.args.args) + list(fnode.args.kwonlyargs) + list(getattr(fnode.args, 'posonlyargs', [])):
        names.add(a.arg)
    for a in (fnode.args.vararg, fnode.args.kwarg):
        if a is not None:
            names.add(a.arg)
    for n in ast.walk(fnode):
        if isinstance(n, ast.Name) and isinstance(n.ctx, (ast.Store, ast.Del)):
            names.add(n.id)
        elif isinstance(n, ast.ExceptHandler) and n.name:
            names.add(n.name)
        elif isinstance(n, (ast.FunctionDef, ast.AsyncFunctionDef, ast.ClassDef)) and n is not fnode:
            names.add(n.name)
        elif isinstance(n, ast.alias):
            names.add((n.asname or n.name).split('.')[0])
    return names


def mangle(attr, fr):
    """private name mangling: self.__x inside class C is attribute _C__x"""
    if attr.startswith('__') and not attr.endswith('__') and fr is not None and fr.cls:
        return '_%s%s' % (fr.cls.split('.')[-1].lstrip('_'), attr)
    return attr


def assigned_names(loopnode):
    """names bound anywhere in the loop (targets of assignments, for-targets, with-as, except-as)"""
    out = []
    for n in ast.walk(loopnode):
        if isinstance(n, ast.Name) and isinstance(n.ctx, ast.Store):
            if n.id not in out:
                out.append(n.id)
        elif isinstance(n, ast.ExceptHandler) and n.name and n.name not in out:
            out.append(n.name)
    return out


def type_of_value(v):
    if isinstance(v, VInt):
        return T.Int
    if isinstance(v, VReal):
        return T.Real
    if isinstance(v, VBool):
        return T.Bool
    if isinstance(v, VStr):
        return TStr(v.kind)
    if isinstance(v, VAny):
        return T.Any
    if isinstance(v, VOpt):
        inner = type_of_value(v.inner)
        return TOpt(inner) if inner is not None else None
    return None


def ast_load(target):
    t = __import__('copy').deepcopy(target)
    for n in ast.walk(t):
        if hasattr(n, 'ctx'):
            n.ctx = ast.Load()
    return t


def loop_ordinal(fnode, loopnode):
    k = 0
    for n in ast.walk(fnode):
        pass
    # document order (pre-order) of For/While nodes, nested defs included
    order = []

    def visit(n):
        for c in ast.iter_child_nodes(n):
            if isinstance(c, (ast.For, ast.While, ast.AsyncFor)):
                order.append(c)
            visit(c)
    visit(fnode)
    for i, n in enumerate(order):
        if n is loopnode:
            return i
    return None


def platform_test(test):
    """Constant value of PY3 / sys.version_info / sys.platform tests on CPython 3 / Linux, else None."""
    src = ast.unparse(test)
    if src == 'PY3':
        return True
    if src == 'not PY3':
        return False
    if src.startswith('sys.version_info'):
        try:
            import sys
            return bool(eval(src, {'sys': sys}))
        except Exception:
            return None
    if src in ("sys.platform == 'win32'", "sys.platform.lower().startswith('irix')",
               "sys.platform.lower().startswith('sunos')", "sys.platform.lower().find('solaris') >= 0",
               "sys.platform.lower().find('irix') >= 0", "sys.platform.startswith('win')"):
        return False
    return None
