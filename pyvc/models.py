"""Models of built-in functions and library objects.  Each model is an *assumed contract*
(DESIGN.md section 4) and is cross-checked against CPython by harness/model_diff.py."""
import ast
import z3
from .values import *
from .engine import *
from . import spec as S

Occ = S.OccP


def occ_def(T_, s, p):
    return z3.And(p >= 0, p + z3.Length(s) <= z3.Length(T_), z3.SubString(T_, p, z3.Length(s)) == s)


def call_builtin(I, name, args, kwargs, fr, node):
    ctx = I.ctx
    if name == 'len':
        v = I.unopt(args[0], 'len argument')
        if type(v).__name__ == 'VRow':
            h = ctx.heap[v.oid]
            return VInt(z3.Select(h.fields['rowlen'], v.i))
        if isinstance(v, VStr):
            return VInt(z3.Length(v.t))
        if isinstance(v, VTuple):
            return VInt(len(v.items))
        if isinstance(v, VObj):
            h = ctx.heap[v.oid]
            if h.kind == 'list':
                items = h.fields['items']
                hid = [x for x in items if isinstance(x, VHidden)]
                if hid:
                    return VInt(z3.simplify(len(items) - len(hid) + sum(x.count for x in hid)))
                return VInt(len(items))
            if h.kind == 'symlist':
                return h.fields['len']
            hook = I.reg.heap_hook(h.kind)
            if hook:
                return hook.len(I, v)
        if isinstance(v, VNone):
            ctx.oblige('safe.len-of-none', False, 'safe')
            I.raise_exc('TypeError')
        raise Unsupported('len of %r' % (v,))
    if name in ('max', 'min'):
        if len(args) == 1:
            items = I.concrete_items(args[0])
        else:
            items = args
        best = items[0]
        for x in items[1:]:
            a, b = I.as_num(best, name), I.as_num(x, name)
            c = (b > a) if name == 'max' else (b < a)
            if ctx.decide(c, name):
                best = x
        return best
    if name == 'abs':
        t = I.as_num(args[0])
        if ctx.decide(t < 0, 'abs'):
            return VInt(-t) if t.sort() == z3.IntSort() else VReal(-t)
        return args[0]
    if name == 'isinstance':
        return VBool(isinstance_(I, args[0], args[1]))
    if name == 'hasattr':
        o, nm = args
        if not (isinstance(nm, VStr) and z3.is_string_value(z3.simplify(nm.t))):
            raise Unsupported('hasattr with non-constant name')
        nm = z3.simplify(nm.t).as_string()
        if isinstance(o, VObj):
            h = ctx.heap[o.oid]
            if nm in h.fields:
                return VBool(True)
            if h.cls in I.prog.classes and (I.prog.find_method(h.cls, nm) or I.prog.find_property(h.cls, nm)
                                            or I.prog.class_attr(h.cls, nm) is not None):
                return VBool(True)
            if h.closed:
                return VBool(False)
            raise Unsupported('hasattr(%s, %s) on an open object' % (h.cls, nm))
        raise Unsupported('hasattr on %r' % (o,))
    if name == 'getattr':
        o, nm = args[0], args[1]
        nm = z3.simplify(nm.t).as_string()
        try:
            return I.getattr(o, nm, fr, node)
        except PyExc:
            if len(args) > 2:
                return args[2]
            raise
    if name == 'callable':
        v = args[0]
        return VBool(isinstance(v, (VFunc, VClass)))
    if name == 'range':
        ints = [I.as_int(a, 'range') for a in args]
        lo, hi = (z3.IntVal(0), ints[0]) if len(ints) == 1 else (ints[0], ints[1])
        step = 1
        if len(ints) == 3:
            st = z3.simplify(ints[2])
            if not (z3.is_int_value(st) and st.as_long() in (1, -1)):
                raise Unsupported('range step')
            step = st.as_long()
        if step == 1:
            if ctx.decide(hi < lo, 'range-empty'):
                hi = lo
        else:
            if ctx.decide(hi > lo, 'range-empty'):
                hi = lo
        return ctx.alloc(HObj('range', 'range', {'lo': VInt(lo), 'hi': VInt(hi), 'step': step}, closed=True))
    if name == 'any' and len(args) == 1:
        v = args[0]
        if isinstance(v, VTuple) or (isinstance(v, VObj) and ctx.heap[v.oid].kind == 'list'):
            for x in (v.items if isinstance(v, VTuple) else list(ctx.heap[v.oid].fields['items'])):
                if I.decide_truth(x, 'any-item'):
                    return VBool(z3.BoolVal(True))
            return VBool(z3.BoolVal(False))
        if isinstance(v, VObj) and ctx.heap[v.oid].kind == 'symlist' and ctx.heap[v.oid].fields.get('oneshot') \
                and len(ctx.heap[v.oid].fields['comps']) == 1 and ctx.heap[v.oid].fields['comps'][0][0].sort().range() == z3.StringSort():
            # any() over an iterable that can be traversed only once (a generator, iter(list), a file): it consumes the
            # elements up to and including the first true one - what is left for a later loop is the rest
            h = ctx.heap[v.oid]
            (arr, ty), = h.fields['comps']
            n = h.fields['len'].t
            j = z3.Int('anyj')
            if ctx.choose(2, 'any-result') == 0:
                ctx.assume(z3.ForAll([j], z3.Implies(z3.And(j >= 0, j < n), z3.Length(arr[j]) == 0)))
                h.fields['len'] = VInt(z3.IntVal(0))
                return VBool(z3.BoolVal(False))
            p = ctx.fresh(T.Int, 'anyfirst').t
            ctx.assume(z3.And(p >= 0, p < n, z3.Length(arr[p]) > 0))
            i = z3.Int('anyi')
            h.fields['comps'] = [(z3.Lambda([i], arr[i + p + 1]), ty)]
            h.fields['len'] = VInt(n - p - 1)
            return VBool(z3.BoolVal(True))
        raise Unsupported('builtin any over %r' % (v,))
    if name == 'enumerate':
        return ctx.alloc(HObj('enumerate', 'enumerate', {'inner': args[0]}, closed=True))
    if name == 'iter':
        v = args[0]
        if len(args) == 1:
            if isinstance(v, (VStr, VTuple)):
                return v
            if isinstance(v, VObj) and ctx.heap[v.oid].kind in ('list', 'symlist', 'range', 'dict'):
                return v
            ctx.path_tags.append(('iter-typeerror', True))
            I.raise_exc('TypeError')
        # iter(callable, sentinel): calls `callable()` until it returns `sentinel` (Python's definition, assumed);
        # kept as an object that records both
        ctx.trust('assumed: iter(f, sentinel) yields f(), f(), ... and stops at the first result equal to sentinel')
        return ctx.alloc(HObj('callable_iterator', 'calliter', {'fn': args[0], 'sentinel': args[1]}, closed=True))
    if name == 'ord':
        v = args[0]
        if isinstance(v, VStr):
            ctx.safe(z3.Length(v.t) == 1, 'ord-length-1')
            return VInt(z3.StrToCode(v.t))
        raise Unsupported('ord of %r' % (v,))
    if name == 'chr':
        t = I.as_int(args[0])
        ctx.safe(z3.And(t >= 0, t < 0x110000), 'chr-range')
        return VStr(z3.StrFromCode(t), 's')
    if name == 'repr':
        return VStr(ctx._const('repr', z3.StringSort()), 's')
    if name == 'id':
        return VInt(ctx._const('id', z3.IntSort()))
    if name == 'print':
        return VNone()
    if name == 'open':
        ctx.trust('assumed: open()/write()/close() of the ./log file in DoLog do not raise (I/O failure is outside the contracts)')
        return ctx.alloc(HObj('iface:osfile', 'obj', {}, closed=False))
    if name == 'sorted':
        raise Unsupported('sorted')
    if name == 'locals':
        return ctx.alloc(HObj('dict', 'dict', {'locals_of': fr}, closed=True))
    if name == 'zip':
        raise Unsupported('zip')
    raise Unsupported('builtin %s' % name)


def isinstance_(I, v, cls):
    classes = cls.items if isinstance(cls, VTuple) else [cls]
    res = False
    for c in classes:
        if isinstance(c, VTuple):
            r = isinstance_(I, v, c)
        elif isinstance(c, VClass):
            r = isinstance1(I, v, c.name)
        elif isinstance(c, VFunc) and c.kind == 'extern':
            r = isinstance1(I, v, c.name)
        elif isinstance(c, VAny):
            raise Unsupported('isinstance against an opaque class')
        else:
            raise Unsupported('isinstance against %r' % (c,))
        if r is True:
            return True
        if r is not False:
            res = r if res is False else z3.Or(res, r)
    return res


def isinstance1(I, v, cname):
    if isinstance(v, VPat):
        r = isinstance1(I, v.payload, cname)
        return z3.And(v.is_text(), S._b(r)) if cname != 'type' else z3.Not(v.is_text())
    if isinstance(v, VOpt):
        r = isinstance1(I, v.inner, cname)
        return z3.And(z3.Not(v.isnone), S._b(r))
    if isinstance(v, VStr):
        return {'b': cname in ('bytes', 'object'), 's': cname in ('str', 'object', 'unicode', 'basestring')}[v.kind]
    if isinstance(v, VInt):
        return cname in ('int', 'object')
    if isinstance(v, VBool):
        return cname in ('bool', 'int', 'object')
    if isinstance(v, VReal):
        return cname in ('float', 'object')
    if isinstance(v, VNone):
        return cname == 'object'
    if isinstance(v, VTuple):
        return cname in ('tuple', 'object')
    if isinstance(v, VClass):
        return cname in ('type', 'object')
    if isinstance(v, VFunc):
        return cname in ('object', 'types.FunctionType', 'types.MethodType')
    if isinstance(v, VObj):
        h = I.ctx.heap[v.oid]
        if h.kind == 'list':
            return cname in ('list', 'object')
        if h.kind == 'dict':
            return cname in ('dict', 'object')
        if h.kind == 'exc':
            return exc_is_a(h.cls, cname)
        if h.cls in I.prog.classes:
            return I.prog.is_subclass(h.cls, cname) or cname == 'object'
        if 'isinstance' in h.fields:
            return cname in h.fields['isinstance']
        return cname == 'object' or h.cls == cname
    if isinstance(v, VAny):
        if v.kindtag == 'regex':
            return cname in ('re.Pattern', 'object')
        if v.kindtag == 'nonpattern':
            # some object that is no string, no compiled pattern, no list and no class (C20): anything else it may be
            if cname in ('bytes', 'str', 're.Pattern', 'list', 'type', 'unicode', 'basestring'):
                return False
            if cname == 'object':
                return True
        if cname == 're.Pattern':
            return z3.Function('isinstance_re_Pattern', Val, z3.BoolSort())(v.t)
        return z3.Function('isinstance_' + cname.replace('.', '_'), Val, z3.BoolSort())(v.t)
    raise Unsupported('isinstance of %r' % (v,))


# ---------------------------------------------------------------------------------------------
def call_class(I, c, args, kwargs, fr, node):
    ctx = I.ctx
    n = c.name
    if n in IO_CLASSES:
        if args:
            raise Unsupported('BytesIO(initial)')
        return ctx.new_io(IO_CLASSES[n], empty=True)
    if n in EXC_PARENTS or n == 'BaseException':
        return ctx.new_exc(n, list(args))
    if n in ('bytes', 'str'):
        kind = 'b' if n == 'bytes' else 's'
        if not args:
            return VStr('', kind)
        if n == 'str':
            if len(args) == 1:
                v = args[0]
                if isinstance(v, VStr) and v.kind == 's':
                    return v
                return I.to_str_call(v, fr)
        raise Unsupported('%s(...) conversion' % n)
    if n == 'float' and len(args) == 1 and isinstance(args[0], (VInt, VReal)):
        v = args[0]
        return v if isinstance(v, VReal) else VReal(z3.ToReal(v.t))
    if n == 'int':
        v = I.unopt(args[0], 'int argument') if isinstance(args[0], VOpt) else args[0]
        args = [v] + list(args[1:])
        if isinstance(v, VInt):
            return v
        if isinstance(v, VReal) and len(args) == 1:
            # int(x) truncates toward zero (z3's to_int is floor)
            return VInt(z3.If(v.t >= 0, z3.ToInt(v.t), -z3.ToInt(-v.t)))
        if isinstance(v, VStr):
            hook = I.reg.extern_contract('builtins.int')
            if hook is not None:
                return I.call_extern('builtins.int', args, kwargs, fr)
        raise Unsupported('int(%r)' % (v,))
    if n == 'list':
        if not args:
            return ctx.alloc(HObj('list', 'list', {'items': []}, closed=True))
        v = args[0]
        if isinstance(v, VObj) and ctx.heap[v.oid].kind == 'list':
            return ctx.alloc(HObj('list', 'list', {'items': list(ctx.heap[v.oid].fields['items'])}, closed=True))
        if isinstance(v, VTuple):
            return ctx.alloc(HObj('list', 'list', {'items': list(v.items)}, closed=True))
        raise Unsupported('list(%r)' % (v,))
    if n == 'dict':
        if not args and not kwargs:
            return ctx.alloc(HObj('dict', 'dict', {'keys': [], 'vals': []}, closed=True))
        if not args:
            # dict(a=x, b=y): string keys in the order given
            return ctx.alloc(HObj('dict', 'dict', {'keys': [VStr(k, 's') for k in kwargs], 'vals': list(kwargs.values())}, closed=True))
        raise Unsupported('dict(...)')
    if n == 'tuple':
        return VTuple(I.concrete_items(args[0]))
    if n == 'type':
        v = args[0]
        if isinstance(v, VAny) and v.kindtag == 'regex':
            return VClass('re.Pattern')
        if isinstance(v, VInt):
            return VClass('int')
        if isinstance(v, VObj) and ctx.heap[v.oid].kind == 'list':
            return VClass('list')
        if isinstance(v, VStr):
            return VClass('bytes' if v.kind == 'b' else 'str')
        if isinstance(v, VObj):
            return VClass(ctx.heap[v.oid].cls)
        return VAny(ctx._const('type', Val))
    if n == 'object':
        return ctx.alloc(HObj('object', 'obj', {}, closed=True))
    if n in I.prog.classes:
        short = n.split('.')[-1]
        if short in EXC_PARENTS and any(b.split('.')[-1] in EXC_PARENTS or b == 'Exception' for b in I.prog.classes[n].bases):
            return ctx.new_exc(short, list(args))
        o = ctx.alloc(HObj(n, 'obj', {}, closed=True))
        fi = I.prog.find_method(n, '__init__')
        if fi is not None:
            I.call_function(fi, [o] + args, kwargs, fr, recv_cls=n)
        return o
    con = I.reg.extern_contract(n)
    if con is not None:
        return I.call_extern(n, args, kwargs, fr)
    raise Unsupported('instantiation of %s' % n)


# ---------------------------------------------------------------------------------------------
def call_bound(I, name, self, args, kwargs, fr, node):
    ctx = I.ctx
    kind, _, meth = name.partition('.')
    if kind == 'io':
        return io_method(I, self, meth, args, kwargs)
    if kind == 'str':
        return str_method(I, self, meth, args, kwargs, fr, node)
    if kind == 'list':
        return list_method(I, self, meth, args, kwargs, fr)
    if kind == 'symlist':
        return symlist_method(I, self, meth, args, kwargs)
    if kind == 'dict':
        return dict_method(I, self, meth, args, kwargs, fr)
    if kind == 'exc':
        raise Unsupported('exception attribute %s' % meth)
    raise Unsupported('method %s' % name)


def io_method(I, self, meth, args, kwargs):
    """io.BytesIO / io.StringIO as (content, pos)."""
    ctx = I.ctx
    h = ctx.heap[self.oid]
    content, pos = h.fields['content'], h.fields['pos']
    L = z3.Length(content.t)
    if meth == 'tell':
        return pos
    if meth == 'getvalue':
        return content
    if meth == 'write':
        s = args[0]
        if isinstance(s, VOpt):
            s = I.unopt(s, 'io.write argument')
        if not isinstance(s, VStr) or s.kind != content.kind:
            ctx.oblige('safe.io-write-type', False, 'safe')
            I.raise_exc('TypeError')
        n = z3.Length(s.t)
        if ctx.decide(pos.t == L, 'io.write@end'):
            h.fields['content'] = VStr(z3.Concat(content.t, s.t), content.kind)
            h.fields['pos'] = VInt(z3.simplify(L + n))
        else:
            ctx.safe(z3.And(pos.t >= 0, pos.t <= L), 'io-write-pos-within')
            if ctx.decide(pos.t + n >= L, 'io.write-past-end'):
                new = z3.Concat(z3.SubString(content.t, 0, pos.t), s.t)
            else:
                new = z3.Concat(z3.SubString(content.t, 0, pos.t), s.t,
                                z3.SubString(content.t, pos.t + n, L - pos.t - n))
            h.fields['content'] = VStr(new, content.kind)
            h.fields['pos'] = VInt(z3.simplify(pos.t + n))
        return VInt(n)
    if meth == 'seek':
        t = I.as_int(args[0], 'seek')
        if len(args) > 1:
            raise Unsupported('seek whence')
        ctx.safe(t >= 0, 'seek-nonnegative')
        h.fields['pos'] = VInt(t)
        return VInt(t)
    if meth == 'read':
        if args and not isinstance(args[0], VNone):
            raise Unsupported('io.read(n)')
        if ctx.decide(pos.t >= L, 'io.read@end'):
            out = VStr('', content.kind)
        elif ctx.decide(pos.t == 0, 'io.read@0'):
            out = content
        else:
            out = VStr(z3.SubString(content.t, pos.t, z3.simplify(L - pos.t)), content.kind)
            h.fields['pos'] = VInt(L)
            return out
        if ctx.decide(pos.t < L, 'io.read-moves'):
            h.fields['pos'] = VInt(L)
        return out
    if meth in ('flush', 'close'):
        return VNone()
    raise Unsupported('io method %s' % meth)


def find_offset(I, s, off, tag):
    """Normalised start offset of str.find(sub, off)."""
    L = z3.Length(s.t)
    if off is None:
        return z3.IntVal(0)
    return I.norm_index(off, L, z3.IntVal(0), tag)


def str_method(I, self, meth, args, kwargs, fr, node):
    ctx = I.ctx
    s = self
    if meth in ('find', 'rfind', 'index'):
        sub = I.unopt(args[0], 'find argument')
        if not isinstance(sub, VStr) or sub.kind != s.kind:
            ctx.oblige('safe.find-type', False, 'safe')
            I.raise_exc('TypeError')
        if len(args) > 2:
            raise Unsupported('find with end')
        st = find_offset(I, s, args[1] if len(args) > 1 else None, 'find.off')
        fname = 'Find' if meth != 'rfind' else 'RFind'
        F = z3.Function(fname, z3.StringSort(), z3.StringSort(), z3.IntSort(), z3.IntSort())
        n = F(s.t, sub.t, st)
        # assumed contract of str.find / bytes.find (cross-checked against CPython)
        L, m = z3.Length(s.t), z3.Length(sub.t)
        ctx.assume(z3.Or(n == -1, z3.And(n >= st, n + m <= L, z3.SubString(s.t, n, m) == sub.t)))
        ctx.assume(z3.Implies(n >= 0, Occ(s.t, sub.t, n)))
        ctx.qfacts.append(('find', meth, s.t, sub.t, st, n))
        ctx.trust('assumed contract: str.%s returns -1 or the least (rfind: greatest) occurrence position >= start' % meth)
        if meth == 'index':
            if ctx.decide(n == -1, 'index-missing'):
                I.raise_exc('ValueError')
        return VInt(n)
    if meth == 'encode' or meth == 'decode':
        want = 's' if meth == 'encode' else 'b'
        if s.kind != want:
            ctx.oblige('safe.%s-on-wrong-type' % meth, False, 'safe')
            I.raise_exc('AttributeError')
        codec = args[0] if args else kwargs.get('encoding', VStr('utf-8', 's'))
        cname = z3.simplify(codec.t).as_string() if isinstance(codec, VStr) and z3.is_string_value(z3.simplify(codec.t)) else None
        errors = args[1] if len(args) > 1 else kwargs.get('errors')
        out_kind = 'b' if meth == 'encode' else 's'
        if cname is None:
            F = z3.Function(meth + '_by', z3.StringSort(), z3.StringSort(), z3.StringSort())
            ctx.trust('assumed: str.%s with a run-time codec is a function of (text, codec); may raise' % meth)
            if ctx.choose(2, meth + '-raises') == 1:
                I.raise_exc('UnicodeEncodeError' if meth == 'encode' else 'UnicodeDecodeError')
            return VStr(F(s.t, codec.t), out_kind)
        cname = cname.lower().replace('_', '-')
        F = z3.Function('%s_%s' % (meth, cname.replace('-', '')), z3.StringSort(), z3.StringSort())
        ok = z3.Function('%sable_%s' % (meth, cname.replace('-', '')), z3.StringSort(), z3.BoolSort())
        lenient = errors is not None
        lit = z3.simplify(s.t)
        plain_ascii = z3.is_string_value(lit) and all(ord(c) < 128 for c in lit.as_string()) and '\\u{' not in lit.as_string()
        if not plain_ascii and cname in ('ascii', 'utf-8', 'utf8', 'latin-1', 'latin1') and S.ascii_only(s.t) is True:
            plain_ascii = True          # e.g. '.{%d}' % n: literal pieces and the decimal rendering of an integer
        if plain_ascii and cname in ('ascii', 'utf-8', 'utf8', 'latin-1', 'latin1'):
            return VStr(s.t, out_kind)          # a literal of ASCII characters: the same code units in every such codec
        if not lenient and not (cname in ('utf-8', 'utf8') and meth == 'encode'):
            if not ctx.decide(ok(s.t), '%s-ok' % meth):
                I.raise_exc('UnicodeEncodeError' if meth == 'encode' else 'UnicodeDecodeError')
        ctx.trust('assumed: %s(%s) is a function of the text; ascii maps code points < 128 to themselves' % (meth, cname))
        if lenient and isinstance(errors, VStr) and not z3.is_string_value(z3.simplify(errors.t)):
            # an error policy chosen at run time: a function of (text, policy) that agrees with the strict one only
            # for the policy 'strict' (what 'replace' / 'ignore' / ... do to unencodable text is a different result)
            F2 = z3.Function('%s_%s_errors' % (meth, cname.replace('-', '')), z3.StringSort(), z3.StringSort(), z3.StringSort())
            r2 = F2(s.t, errors.t)
            ctx.assume(z3.Implies(errors.t == z3.StringVal('strict'), r2 == F(s.t)))
            return VStr(r2, out_kind)
        r = F(s.t)
        if cname == 'ascii' and not lenient:
            ctx.assume(r == s.t)
        return VStr(r, out_kind)
    if meth in ('startswith', 'endswith'):
        p = args[0]
        if isinstance(p, VTuple):
            parts = [(z3.PrefixOf if meth == 'startswith' else z3.SuffixOf)(x.t, s.t) for x in p.items]
            return VBool(z3.Or(*parts))
        return VBool((z3.PrefixOf if meth == 'startswith' else z3.SuffixOf)(p.t, s.t))
    if meth == 'join':
        a0 = args[0]
        if type(a0).__name__ == 'VRow':
            z = z3.simplify(s.t)
            if z3.is_string_value(z) and z.as_string() == '':
                return I.reg.heap_hook('grid').row_text(I, a0)
            raise Unsupported('join of a row with a separator')
        if isinstance(a0, VObj) and ctx.heap[a0.oid].kind == 'rowtexts':
            g = ctx.heap[a0.oid].fields['grid']
            from .grid import CellArr, IntArr
            F = z3.Function('GridText', z3.StringSort(), CellArr, IntArr, z3.IntSort(), z3.StringSort())
            return VStr(F(s.t, g['cell'], g['rowlen'], g['len'].t), 's')
        if isinstance(a0, VObj) and ctx.heap[a0.oid].kind == 'symlist':
            h = ctx.heap[a0.oid]
            comps = h.fields['comps']
            if not h.fields.get('scalar') or comps[0][1].tag != 'Str':
                raise Unsupported('join of a symbolic list of non-strings')
            if comps[0][1].args[0] != s.kind:
                ctx.oblige('safe.join-type', False, 'safe')
                I.raise_exc('TypeError')
            return VStr(S.join_list(s.t, comps[0][0], h.fields['len'].t), s.kind)
        items = I.concrete_items(args[0])
        if not items:
            return VStr('', s.kind)
        parts = []
        for i, x in enumerate(items):
            if not isinstance(x, VStr) or x.kind != s.kind:
                ctx.oblige('safe.join-type', False, 'safe')
                I.raise_exc('TypeError')
            if i:
                parts.append(s.t)
            parts.append(x.t)
        return VStr(z3.Concat(*parts) if len(parts) > 1 else parts[0], s.kind)
    if meth == 'isspace':
        F = z3.Function('isspace', z3.StringSort(), z3.BoolSort())
        return VBool(F(s.t))
    if meth in ('lower', 'upper', 'strip', 'rstrip', 'lstrip', 'format', 'replace', 'ljust', 'rjust', 'title'):
        if meth == 'format':
            for x in list(args) + list(kwargs.values()):
                I.to_str_call(x, fr)
        return VStr(ctx._const('str.' + meth, z3.StringSort()), s.kind)
    if meth == 'splitlines' and I.reg.extern_contract('str.splitlines') is not None and not args:
        return I.call_extern('str.splitlines', [s], {}, fr)
    if meth == 'split' and I.reg.extern_contract('str.split') is not None and len(args) == 1:
        return I.call_extern('str.split', [s, args[0]], {}, fr)
    if meth == 'splitlines' or meth == 'split':
        raise Unsupported('str.%s' % meth)
    if meth.startswith('is') and not args:
        F = z3.Function(meth, z3.StringSort(), z3.BoolSort())       # isdigit, isascii, isalpha, ...: a predicate of the text
        return VBool(F(s.t))
    raise Unsupported('str method %s' % meth)


def list_method(I, self, meth, args, kwargs, fr):
    ctx = I.ctx
    h = ctx.heap[self.oid]
    items = h.fields['items']
    if meth == 'append':
        items.append(args[0])
        return VNone()
    if meth == 'pop':
        if not items:
            ctx.oblige('safe.pop-nonempty', False, 'safe')
            I.raise_exc('IndexError')
        if args:
            return items.pop(I.concrete_int(args[0], None))
        if isinstance(items[-1], VHidden):
            raise Unsupported('pop reaches the part of the list the contract shape hides')
        return items.pop()
    if meth == 'insert':
        items.insert(I.concrete_int(args[0], None), args[1])
        return VNone()
    if meth == 'extend':
        items.extend(I.concrete_items(args[0]))
        return VNone()
    if meth == 'sort':
        raise Unsupported('list.sort')
    raise Unsupported('list method %s' % meth)


def symlist_method(I, self, meth, args, kwargs):
    ctx = I.ctx
    h = ctx.heap[self.oid]
    if meth == 'append':
        v = args[0]
        comps = h.fields['comps']
        vals = [v] if h.fields.get('scalar') else (v.items if isinstance(v, VTuple) else None)
        if not h.fields.get('pat') and (vals is None or len(vals) != len(comps)):
            raise Unsupported('symlist.append of %r' % (v,))
        n = h.fields['len'].t
        newc = []
        if h.fields.get('pat'):
            # list of pattern elements: the class EOF / TIMEOUT or a payload value
            (a_eof, t1), (a_to, t2), (a_val, t3) = comps
            if isinstance(v, VClass) and v.name in ('EOF', 'TIMEOUT'):
                newc = [(z3.Store(a_eof, n, z3.BoolVal(v.name == 'EOF')), t1), (z3.Store(a_to, n, z3.BoolVal(v.name == 'TIMEOUT')), t2), (a_val, t3)]
            elif hasattr(v, 't') and v.t.sort() == a_val.sort().range():
                newc = [(z3.Store(a_eof, n, z3.BoolVal(False)), t1), (z3.Store(a_to, n, z3.BoolVal(False)), t2), (z3.Store(a_val, n, v.t), t3)]
            else:
                raise Unsupported('append of %r to a pattern list' % (v,))
            h.fields['comps'] = newc
            h.fields['len'] = VInt(z3.simplify(n + 1))
            return VNone()
        for (arr, ty), x in zip(comps, vals):
            if isinstance(x, VPat):
                x = I.unopt(x, 'list element')
            if isinstance(x, VOpt) or not hasattr(x, 't'):
                raise Unsupported('symlist.append component %r' % (x,))
            if x.t.sort() != sort_of(ty):
                raise Unsupported('symlist.append component sort')
            newc.append((z3.Store(arr, n, x.t), ty))
        h.fields['comps'] = newc
        h.fields['len'] = VInt(z3.simplify(n + 1))
        return VNone()
    raise Unsupported('symbolic list method %s' % meth)


def dict_method(I, self, meth, args, kwargs, fr):
    ctx = I.ctx
    h = ctx.heap[self.oid]
    if meth == 'pop' and 'keys' in h.fields:
        key = args[0]
        for i, k in enumerate(h.fields['keys']):
            if ctx.decide(S._b(I.veq(key, k)), 'dict.pop'):
                h.fields['keys'].pop(i)
                return h.fields['vals'].pop(i)
        if len(args) > 1:
            return args[1]
        I.raise_exc('KeyError')
    if meth == 'get' and 'keys' in h.fields:
        key = args[0]
        for i, k in enumerate(h.fields['keys']):
            if ctx.decide(S._b(I.veq(key, k)), 'dict.get'):
                return h.fields['vals'][i]
        return args[1] if len(args) > 1 else VNone()
    if meth in ('items', 'keys', 'values') and 'keys' in h.fields:
        if meth == 'items':
            items = [VTuple([k, v]) for k, v in zip(h.fields['keys'], h.fields['vals'])]
        else:
            items = list(h.fields['keys'] if meth == 'keys' else h.fields['vals'])
        return ctx.alloc(HObj('list', 'list', {'items': items}, closed=True))
    hook = I.reg.heap_hook('dict')
    if hook:
        return hook.method(I, self, meth, args, kwargs, fr)
    raise Unsupported('dict method %s' % meth)
