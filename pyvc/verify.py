"""Verification driver: (contract, case) tasks in a process pool; portfolio discharge."""
import os, sys, time, json, hashlib, traceback
import multiprocessing as mp
import z3

from .front import Program
from .engine import Ctx, Unsupported
from .contract import run_function_paths, enumerate_cases, SymBuilder
from . import solver as SV

_prog = None
_reg = None


def _init():
    global _prog, _reg
    if _prog is None:
        sys.setrecursionlimit(10000)
        from contracts import build_registry
        _prog = Program()
        _reg = build_registry()
    return _prog, _reg


def list_cases(con):
    prog, reg = _init()

    def shape_fn(cs):
        ctx = Ctx(prog, reg, [], [])
        b = SymBuilder(ctx, cs)
        con.shape(b)
    return enumerate_cases(shape_fn)


_ESC = __import__('re').compile(r'\\u\{([0-9a-fA-F]+)\}')


def z3str(val):
    return _ESC.sub(lambda m: chr(int(m.group(1), 16)), val.as_string())


def model_to_dict(model, leaves, ctx=None):
    """Concrete values of the named leaves of the pre-state (for replay)."""
    out = {}
    if model is None:
        return out
    for name, (kind, v) in leaves.items():
        try:
            if kind in ('int', 'real', 'bool', 'str', 'any'):
                val = model.eval(v.t, model_completion=True)
                if kind == 'int':
                    out[name] = val.as_long()
                elif kind == 'bool':
                    out[name] = z3.is_true(val)
                elif kind == 'str':
                    out[name] = z3str(val) if z3.is_string_value(val) else str(val)
                elif kind == 'real':
                    out[name] = float(val.as_fraction()) if z3.is_rational_value(val) else str(val)
                else:
                    out[name] = str(val)
            elif kind == 'grid' and ctx is not None:
                from .grid import sel2
                h = ctx.heap[v.oid]
                n = max(0, min(model.eval(h.fields['len'].t, model_completion=True).as_long(), 6))
                for i in range(n):
                    m = max(0, min(model.eval(z3.Select(h.fields['rowlen'], i), model_completion=True).as_long(), 6))
                    for j in range(m):
                        val = model.eval(sel2(h.fields['cell'], i, j), model_completion=True)
                        out['%s[%d][%d]' % (name, i, j)] = z3str(val) if z3.is_string_value(val) else ' '
            elif kind == 'symlist' and ctx is not None:
                h = ctx.heap[v.oid]
                n = model.eval(h.fields['len'].t, model_completion=True).as_long()
                n = max(0, min(n, 6))
                out[name + '.len'] = n
                for (arr, ty) in h.fields['comps']:
                    cn = str(arr).split('!')[0]
                    for i in range(n):
                        val = model.eval(z3.Select(arr, i), model_completion=True)
                        key = '%s[%d]' % (cn, i)
                        if z3.is_int_value(val):
                            out[key] = val.as_long()
                        elif z3.is_string_value(val):
                            out[key] = z3str(val)
                        elif z3.is_true(val) or z3.is_false(val):
                            out[key] = z3.is_true(val)
                        else:
                            out[key] = str(val)
        except Exception as e:        # model extraction is best effort
            out[name] = '<%s>' % e
    return out


def extra_model(model, ctx, limit=40):
    """Other named constants (call results, havocked fields) for the replay oracle."""
    out = {}
    if model is None or ctx is None:
        return out
    for name, c in list(ctx.names.items())[:400]:
        try:
            val = model.eval(c, model_completion=False)
            if val.eq(c):
                continue
            if z3.is_int_value(val):
                out[name] = val.as_long()
            elif z3.is_string_value(val):
                out[name] = z3str(val)
            elif z3.is_true(val) or z3.is_false(val):
                out[name] = z3.is_true(val)
            elif z3.is_rational_value(val):
                out[name] = float(val.as_fraction())
        except Exception:
            pass
    return out


def discharge_ob(ob, budget):
    if ob.entailed:
        return SV.Verdict('proved', 'z3api-incremental', 0.0)
    try:
        return _discharge_ob(ob, budget)
    except (MemoryError, z3.Z3Exception) as e:
        return SV.Verdict('undecided', None, 0.0, tried=[('resource', '%s: %s' % (type(e).__name__, str(e)[:80]), 0.0)])


def _discharge_ob(ob, budget):
    # 1. short in-process attempt (also the model finder)
    v = SV.discharge(ob.hyps, ob.goal, budget_s=min(1.5, budget), backends=('z3api',))
    if v.status != 'undecided':
        return v
    tried = list(v.tried)
    v = SV.discharge(ob.hyps, ob.goal, budget_s=budget, backends=('cvc5', 'z3old'))
    v.tried = tried + v.tried
    if v.status != 'undecided':
        return v
    v2 = SV.discharge(ob.hyps, ob.goal, budget_s=budget, backends=('z3api',))
    v2.tried = v.tried + v2.tried
    return v2


def match_known(known, cname, ob_id, labels, tags=None):
    clause = ob_id[5:] if ob_id.startswith('post.') else ob_id
    for k in known or []:
        if k.get('status', 'open') != 'open':
            continue
        if k['contract'] in (cname, '*') and (k['clause'] == clause or clause in k.get('also_clauses', [])):
            cf = k.get('case')
            if cf and any(labels.get(a) != b for a, b in cf.items()):
                continue
            pt = k.get('path_tag')
            if pt and not any(str(t[0]) == pt[0] and str(t[1]).startswith(pt[1]) for t in (tags or [])):
                continue            # the finding is tied to a class of paths; other paths are reported normally
            return k
    return None


def apply_known(kf, ob, v, rec, ctx, budget):
    """A listed finding: the obligation is re-proved under the negation of the witness class, so
    any other violation of the same clause is still reported."""
    w = kf.get('witness')
    if not w:
        rec['status'] = 'known-finding'
        rec['known'] = kf
        v.status = 'known-finding'
        return v, rec
    ns = {'Length': z3.Length, 'And': z3.And, 'Or': z3.Or, 'Not': z3.Not, 'StringVal': z3.StringVal}
    names = {}
    for name, c in (ctx.names.items() if ctx is not None else []):
        names[name.replace('.', '_').replace('!', '_')] = c

    def anypos(prefix):
        """some drawn quantity whose name starts with prefix is positive (e.g. time spent in a blocking call)"""
        cs = [c for n, c in (ctx.names.items() if ctx is not None else []) if n.split('!')[0] == prefix]
        return z3.Or(*[c > 0 for c in cs]) if cs else z3.BoolVal(False)
    ns['anypos'] = anypos
    try:
        wt = eval(w, ns, names)
    except Exception as e:
        rec['known_error'] = 'witness not evaluable on this path: %s' % e
        return v, rec
    hyps = list(ob.hyps) + [z3.Not(wt)]
    ob2 = type(ob)(ob.id, hyps, ob.goal, ob.kind, ob.where)
    v2 = discharge_ob(ob2, budget)
    rec['tried'] = list(rec.get('tried', [])) + [('outside-known-class', v2.status, round(v2.seconds, 3))]
    if v2.status == 'refuted':
        rec['status'] = 'refuted'
        rec['outside_known_class'] = kf['id']
        return v2, rec
    rec['status'] = 'known-finding'
    rec['known'] = kf
    rec['outside_class'] = v2.status
    v.status = 'known-finding'
    return v, rec


def want_smt_budget(out, cap=6):
    """thorough tier: keep the SMT-LIB text of a few solver-discharged obligations per task for the agreement sample"""
    n = sum(1 for o in out['obligations'] if o.get('smt2') and o['status'] == 'proved')
    return n < cap


def run_task(task):
    """task = (contract name, receiver or None, case assignment, labels, budget_s, want_smt)"""
    cname, recv, assign, labels, budget, want_smt, known = task
    t0 = time.time()
    out = {'contract': cname, 'receiver': recv, 'case': labels, 'obligations': [], 'paths': 0, 'unsupported': [], 'trusted': [],
           'error': None}
    try:
        prog, reg = _init()
        reg.context = None          # (a worker is reused: no oracle set of an earlier task may leak into the selection)
        con = reg.contract_for(cname, recv)
        fi = prog.func(cname)
        out['source'] = {'file': os.path.relpath(fi.path, prog.repo), 'lines': list(fi.lines), 'sha256': fi.sha} if fi else None
        prs = run_function_paths(prog, reg, con, assign)
        trusted = set()
        for pi, pr in enumerate(prs):
            if pr.status == 'infeasible':
                continue
            out['paths'] += 1
            trusted |= set(pr.trusted)
            if pr.status == 'unsupported':
                out['unsupported'].append(pr.detail)
            for ob in pr.obligations:
                v = discharge_ob(ob, budget)
                rec = {'id': ob.id, 'kind': ob.kind, 'where': ob.where, 'path': pi, 'exit': pr.exit,
                       'status': v.status, 'backend': v.backend, 'seconds': round(v.seconds, 3),
                       'tried': v.tried, 'tags': [list(map(str, t)) for t in ob.meta.get('tags', [])][-12:]}
                if v.status != 'proved':
                    kf = match_known(known, cname, ob.id, labels, ob.meta.get('tags'))
                    if kf is not None:
                        v, rec = apply_known(kf, ob, v, rec, getattr(pr, 'ctx', None), budget)
                if v.status == 'refuted':
                    rec['model'] = model_to_dict(v.model, pr.leaves, getattr(pr, 'ctx', None))
                    rec['model_extra'] = extra_model(v.model, getattr(pr, 'ctx', None))
                if v.status != 'proved' or (want_smt and v.backend != 'z3api-incremental' and want_smt_budget(out)):
                    try:
                        rec['smt2'] = SV._smt2(ob.hyps, ob.goal)[:20000]
                    except Exception:
                        pass
                out['obligations'].append(rec)
        out['trusted'] = sorted(trusted)
        out['pruned'] = sorted(set(prog.pruned))
    except Exception as e:
        out['error'] = '%s: %s\n%s' % (type(e).__name__, e, traceback.format_exc()[-1500:])
    out['wall_s'] = round(time.time() - t0, 2)
    return out


def verify_contracts(names, budget=10.0, procs=None, want_smt=False, progress=None, known=None):
    """Verify the named contracts (all cases) in a process pool.  Returns list of task results."""
    prog, reg = _init()
    tasks = []
    for nm in names:
        recv = None
        if isinstance(nm, tuple):
            nm, recv = nm
        con = reg.contract_for(nm, recv)
        if con is None:
            raise KeyError('no contract registered for %s' % nm)
        for full, labels in list_cases(con):
            tasks.append((nm, recv, full, labels, budget, want_smt, known or []))
    procs = procs or min(16, max(1, len(tasks)))
    if procs == 1 or len(tasks) == 1:
        return [run_task(t) for t in tasks]
    # a worker that dies (e.g. a solver blow-up on changed code hitting the memory limit) must neither hang the check
    # nor pass silently: its task is reported as undecided for the whole function
    from concurrent.futures import ProcessPoolExecutor
    from concurrent.futures.process import BrokenProcessPool
    ctx = mp.get_context('fork')
    res = [None] * len(tasks)
    pending = list(range(len(tasks)))
    rounds = 0
    while pending and rounds < 3:
        rounds += 1
        with ProcessPoolExecutor(max_workers=procs if rounds == 1 else max(1, procs // 4), mp_context=ctx, initializer=_limit_memory) as ex:
            futs = {i: ex.submit(run_task, tasks[i]) for i in pending}
            for i, f in futs.items():
                try:
                    res[i] = f.result()
                except BrokenProcessPool:
                    pass
                except Exception as e:      # noqa
                    res[i] = _dead_task(tasks[i], '%s: %s' % (type(e).__name__, e))
        pending = [i for i in pending if res[i] is None]
    for i in pending:
        res[i] = _dead_task(tasks[i], 'the verification worker died (memory limit) on this case')
    return res


def _limit_memory():
    import resource
    lim = int(os.environ.get('VERIF_WORKER_MEM_GB', '6')) << 30
    try:
        resource.setrlimit(resource.RLIMIT_AS, (lim, lim))
    except (ValueError, OSError):
        pass


def _dead_task(task, why):
    cname, recv, assign, labels = task[:4]
    return {'contract': cname, 'receiver': recv, 'case': labels, 'obligations': [], 'paths': 1, 'unsupported': [why],
            'trusted': [], 'error': None, 'source': None, 'wall_s': 0.0}
