"""A dictionary known only through membership and lookup (the FSM transition tables): uninterpreted
functions of the key components, so two lookups of the same key give the same value."""
import z3
from .values import *
from .engine import *
from . import spec as S


def _sort(v):
    return v.t.sort()


class SymDictHook:
    def contains(self, I, d, key):
        h = I.ctx.heap[d.oid]
        ks = key.items if isinstance(key, VTuple) else [key]
        if len(ks) != h.fields['arity'] or not all(isinstance(k, VStr) for k in ks):
            return False
        F = z3.Function('Has_' + h.fields['name'], *([z3.StringSort()] * len(ks) + [z3.BoolSort()]))
        return F(*[k.t for k in ks])

    def index(self, I, d, key, node):
        ctx = I.ctx
        h = ctx.heap[d.oid]
        ks = key.items if isinstance(key, VTuple) else [key]
        has = self.contains(I, d, key)
        if has is False or not ctx.decide(has, 'dict-has-key'):
            I.raise_exc('KeyError')
        nm = h.fields['name']
        args = [k.t for k in ks]
        sorts = [z3.StringSort()] * len(ks)
        act = z3.Function('Act_' + nm, *(sorts + [Val]))(*args)
        none = z3.Function('ActNone_' + nm, *(sorts + [z3.BoolSort()]))(*args)
        nxt = z3.Function('Next_' + nm, *(sorts + [z3.StringSort()]))(*args)
        return VTuple([VOpt(none, VAny(act, notnone=True)), VStr(nxt, 's')])


class SymDictView:
    def __init__(self, h):
        self._h = h

    def has(self, *keys):
        nm = self._h.fields['name']
        F = z3.Function('Has_' + nm, *([z3.StringSort()] * len(keys) + [z3.BoolSort()]))
        return F(*[k if S.is_sym(k) else z3.StringVal(k) for k in keys])

    def get(self, *keys):
        nm = self._h.fields['name']
        args = [k if S.is_sym(k) else z3.StringVal(k) for k in keys]
        sorts = [z3.StringSort()] * len(keys)
        act = z3.Function('Act_' + nm, *(sorts + [Val]))(*args)
        none = z3.Function('ActNone_' + nm, *(sorts + [z3.BoolSort()]))(*args)
        nxt = z3.Function('Next_' + nm, *(sorts + [z3.StringSort()]))(*args)
        return (S.Opt(none, act), nxt)
