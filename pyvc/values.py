"""Symbolic values of the pyvc executor and type descriptors used by contracts."""
import z3
from .spec import Val, ClassConst, Opt, to_z3_str


class V:
    pass


class VInt(V):
    def __init__(self, t):
        self.t = z3.IntVal(t) if isinstance(t, int) else t

    def __repr__(self):
        return 'VInt(%s)' % self.t


class VReal(V):
    def __init__(self, t):
        self.t = z3.RealVal(t) if isinstance(t, (int, float)) else t

    def __repr__(self):
        return 'VReal(%s)' % self.t


class VBool(V):
    def __init__(self, t):
        self.t = z3.BoolVal(t) if isinstance(t, bool) else t

    def __repr__(self):
        return 'VBool(%s)' % self.t


class VStr(V):
    """kind: 'b' bytes, 's' str, '?' follows the spawn's string type"""
    def __init__(self, t, kind):
        if isinstance(t, (str, bytes)):
            t = z3.StringVal(to_z3_str(t))
        self.t = t
        self.kind = kind

    def __repr__(self):
        return 'VStr[%s](%s)' % (self.kind, self.t)


class VNone(V):
    _inst = None

    def __new__(cls):
        if cls._inst is None:
            cls._inst = object.__new__(cls)
        return cls._inst

    def __repr__(self):
        return 'VNone'


class VClass(V):
    def __init__(self, name):
        self.name = name

    def __repr__(self):
        return 'VClass(%s)' % self.name


class VTuple(V):
    def __init__(self, items):
        self.items = list(items)

    def __repr__(self):
        return 'VTuple(%r)' % (self.items,)


class VObj(V):
    def __init__(self, oid):
        self.oid = oid

    def __repr__(self):
        return 'VObj(#%d)' % self.oid


class VAny(V):
    """An opaque value.  notnone=True: known not to be None (an object returned by a library call)."""
    def __init__(self, t, notnone=False, kindtag=None):
        self.t = t
        self.notnone = notnone
        self.kindtag = kindtag          # 'regex' for compiled regular expressions

    def __repr__(self):
        return 'VAny(%s)' % self.t


class VOpt(V):
    def __init__(self, isnone, inner):
        self.isnone = isnone
        self.inner = inner

    def __repr__(self):
        return 'VOpt(%s,%r)' % (self.isnone, self.inner)


class VPat(V):
    """A pattern-list element: the class EOF, the class TIMEOUT, or a payload value (text / regex)."""
    def __init__(self, iseof, isto, payload):
        self.iseof, self.isto, self.payload = iseof, isto, payload

    def is_text(self):
        import z3
        return z3.And(z3.Not(self.iseof), z3.Not(self.isto))

    def __repr__(self):
        return 'VPat(%s,%s,%r)' % (self.iseof, self.isto, self.payload)


class VUnion(V):
    """A value that is one of several alternatives, selected by `tag` (an Int term): alts = [(label, value)].
    Resolved (case split) when a local variable holding it is read."""
    def __init__(self, tag, alts):
        self.tag, self.alts = tag, list(alts)

    def __repr__(self):
        return 'VUnion(%s, %s)' % (self.tag, [a for a, _ in self.alts])


class VHidden(V):
    """`count` list elements the function under contract never touches (between index 0 and the tail)."""
    def __init__(self, count):
        self.count = count

    def __repr__(self):
        return 'VHidden(%s)' % self.count


class VFunc(V):
    """kind: 'method' (fi, self), 'closure' (node, env, module, cls), 'builtin' (name),
    'extern' (qualified name), 'bound_builtin' (name, self value)"""
    def __init__(_s, kind, **data):
        _s.kind = kind
        _s.__dict__.update(data)

    def __repr__(self):
        return 'VFunc(%s)' % self.kind


class VModule(V):
    def __init__(self, name):
        self.name = name

    def __repr__(self):
        return 'VModule(%s)' % self.name


# ---- heap objects -------------------------------------------------------------------------
class HObj:
    def __init__(self, cls, kind='obj', fields=None, closed=False):
        self.cls = cls          # qualified class name, or 'io.BytesIO', 'list', ...
        self.kind = kind        # 'obj' | 'io' | 'list' | 'symlist' | 'exc' | 'dict'
        self.fields = fields if fields is not None else {}
        self.closed = closed

    def copy(self):
        h = HObj(self.cls, self.kind, dict(self.fields), self.closed)
        if 'items' in h.fields and isinstance(h.fields['items'], list):
            h.fields['items'] = list(h.fields['items'])
        return h


from .types import *     # noqa: T descriptors
