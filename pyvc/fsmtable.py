"""Complete abstract interpretation of the extracted ANSI transition table over memory-depth intervals.
Uses only the per-action effects that the action contracts prove from the source (pops / pushes / reset /
needs a digit symbol).  Global invariant carried: memory[0] is the screen, every other element is a digit
string (only DoStartNumber pushes, and only digit symbols reach it)."""
INF = 10 ** 9
DIGITS = set('0123456789')


def analyse(table, meta):
    """returns (obligations, failures): one obligation per table entry / default use."""
    states = {table['initial']}
    for sym, st, a, nx in table['exact']:
        states |= {st, nx}
    for st, (a, nx) in table['any'].items():
        states |= {st, nx}
    if table['default']:
        states.add(table['default'][1])
    depth = {s: None for s in states}
    depth[table['initial']] = (table['memory_len'], table['memory_len'])

    def entries(st):
        """(label, symbols-known-to-be-digits?, action, next) for every way out of state st"""
        out = []
        exact_syms = set()
        for sym, s2, a, nx in table['exact']:
            if s2 == st:
                exact_syms.add(sym)
                out.append(('(%r, %s)' % (sym, st), sym in DIGITS, a, nx))
        if st in table['any']:
            a, nx = table['any'][st]
            out.append(('(any, %s)' % st, False, a, nx))
        elif table['default']:
            a, nx = table['default']
            out.append(('(default, %s)' % st, False, a, nx))
        else:
            out.append(('(undefined, %s)' % st, False, '<raises ExceptionFSM>', st))
        return out

    failures = []
    obligations = 0
    for it in range(60):
        changed = False
        failures = []
        obligations = 0
        for st in sorted(states):
            if depth[st] is None:
                continue
            lo, hi = depth[st]
            for label, is_digit, a, nx in entries(st):
                obligations += 1
                if a == '<raises ExceptionFSM>':
                    failures.append('%s: no transition defined: feeding this symbol raises' % label)
                    continue
                if a is None:
                    m = dict(pops=0, pushes=0, reset=False, digit_symbol=False)
                elif a not in meta:
                    failures.append('%s: action %s has no contract' % (label, a))
                    continue
                else:
                    m = meta[a]
                if lo < 1 + m['pops']:
                    failures.append('%s: action %s pops %d numbers but the memory may hold only %d' % (label, a, m['pops'], lo - 1))
                    continue
                if m['digit_symbol'] and not is_digit:
                    failures.append('%s: action %s needs a digit symbol' % (label, a))
                    continue
                if m['reset']:
                    new = (1, 1)
                else:
                    d = m['pushes'] - m['pops']
                    new = (lo + d, hi + d if hi < INF else INF)
                old = depth[nx]
                if old is None:
                    j = new
                else:
                    j = (min(old[0], new[0]), max(old[1], new[1]))
                    if it > 8 and j[1] > old[1]:
                        j = (j[0], INF)              # widening
                if j != old:
                    depth[nx] = j
                    changed = True
        if not changed:
            break
    init = depth[table['initial']]
    obligations += 1
    if init != (1, 1):
        failures.append('parser residue: the initial state can be reached with memory depth %s' % (init,))
    if not table.get('memory0_is_self', True):
        failures.append('memory[0] is not the terminal itself')
    return obligations, failures, {k: v for k, v in depth.items()}
