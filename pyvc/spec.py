"""Dual-mode specification vocabulary.

Every function here accepts either z3 terms (prover) or plain Python values (replay, bounded
stand-in, run-time monitor) and returns a z3 Bool / term or a Python bool / value.  Contracts
are written only with these functions and with attribute access on state views, so the same
text is the proof obligation and the concrete oracle.
"""
try:
    import z3
    Val = z3.DeclareSort('Val')      # values whose structure the contracts never look into
except ImportError:                  # concrete mode (replay / bounded stand-in / monitors) needs no solver
    z3 = None
    Val = None


class ClassConst:
    """A Python class object used as a value (EOF, TIMEOUT, BytesIO, ...)."""
    _cache = {}

    def __new__(cls, name):
        if name not in cls._cache:
            o = object.__new__(cls)
            o.name = name
            cls._cache[name] = o
        return cls._cache[name]

    def __repr__(self):
        return '<class %s>' % self.name


class Opt:
    """A value that may be None: (is_none, val).  Symbolic mode only."""
    def __init__(self, is_none, val):
        self.is_none = is_none
        self.val = val


def is_sym(x):
    return z3 is not None and isinstance(x, z3.ExprRef)


def _any_sym(xs):
    return any(is_sym(x) for x in xs)


def _b(x):
    if is_sym(x):
        return x
    if not isinstance(x, (bool, int)) and type(x).__name__ in ('QForall', 'QForall2', 'QGuard'):
        raise TypeError('a quantified clause must be a top-level clause of a contract, not an operand')
    return z3.BoolVal(bool(x))


def _noq(xs):
    for x in xs:
        if type(x).__name__ in ('QForall', 'QForall2', 'QGuard'):
            raise TypeError('a quantified clause must be a top-level clause of a contract, not an operand')


def And(*xs):
    xs = [x for x in xs]
    _noq(xs)
    if _any_sym(xs):
        return z3.And(*[_b(x) for x in xs])
    return all(xs)


def Or(*xs):
    _noq(xs)
    if _any_sym(xs):
        return z3.Or(*[_b(x) for x in xs])
    return any(xs)


def Not(x):
    _noq([x])
    if is_sym(x):
        return z3.Not(x)
    return not x


def Implies(a, b):
    _noq([a, b])
    if is_sym(a) or is_sym(b):
        return z3.Implies(_b(a), _b(b))
    return (not a) or bool(b)


def Iff(a, b):
    if is_sym(a) or is_sym(b):
        return _b(a) == _b(b)
    return bool(a) == bool(b)


def ite(c, a, b):
    if is_sym(c):
        a2, b2 = _lift(a, b)
        return z3.If(c, a2, b2)
    return a if c else b


def _lift(a, b):
    """Make two operands z3 terms of the same sort when one is a Python constant."""
    if is_sym(a) and not is_sym(b):
        b = _const_like(b, a)
    elif is_sym(b) and not is_sym(a):
        a = _const_like(a, b)
    return a, b


def _const_like(py, term):
    s = term.sort()
    if s == z3.IntSort():
        return z3.IntVal(int(py))
    if s == z3.RealSort():
        return z3.RealVal(py)
    if s == z3.BoolSort():
        return z3.BoolVal(bool(py))
    if s == z3.StringSort():
        return z3.StringVal(to_z3_str(py))
    raise TypeError('cannot lift %r to %s' % (py, s))


def to_z3_str(py):
    if isinstance(py, (bytes, bytearray)):
        return ''.join(chr(c) for c in py)
    return py


def is_none(x):
    if isinstance(x, Opt):
        return x.is_none
    return x is None


def some(x):
    """The value inside an optional (caller guarantees it is not None)."""
    if isinstance(x, Opt):
        return x.val
    return x


def eq(a, b):
    """Python `==` on spec values of possibly different types."""
    if isinstance(a, Opt) or isinstance(b, Opt):
        if isinstance(a, Opt) and isinstance(b, Opt):
            return Or(And(a.is_none, b.is_none), And(Not(a.is_none), Not(b.is_none), eq(a.val, b.val)))
        o, x = (a, b) if isinstance(a, Opt) else (b, a)
        if x is None:
            return o.is_none
        return And(Not(o.is_none), eq(o.val, x))
    if a is None or b is None:
        return a is b
    if isinstance(a, ClassConst) or isinstance(b, ClassConst):
        return a is b
    if isinstance(a, tuple) and isinstance(b, tuple):
        if len(a) != len(b):
            return False
        return And(*[eq(x, y) for x, y in zip(a, b)])
    if hasattr(a, '_obj') and hasattr(b, '_obj'):
        return a._obj is b._obj                     # concrete object views: identity of the real objects
    if isinstance(a, bytes) and isinstance(b, str):
        b = b.encode('latin-1')                     # spec constants are written as text
    elif isinstance(b, bytes) and isinstance(a, str):
        a = a.encode('latin-1')
    if is_sym(a) or is_sym(b):
        try:
            a, b = _lift(a, b)
        except TypeError:
            return False
        if a.sort() != b.sort():
            if {a.sort().kind(), b.sort().kind()} == {z3.Z3_INT_SORT, z3.Z3_REAL_SORT}:
                return a == b
            return False
        r = z3.simplify(a == b)
        if z3.is_true(r):
            return True
        if z3.is_false(r):
            return False
        return a == b
    if type(a) is not type(b) and not (isinstance(a, (int, float)) and isinstance(b, (int, float))):
        return False
    return a == b


def same(a, b):
    """Python `is` for spec values (identity of opaque values = equality of their terms)."""
    if is_sym(a) or is_sym(b):
        return eq(a, b)
    return a is b or (isinstance(a, (int, str, bytes)) and type(a) is type(b) and a == b)


def length(s):
    if is_sym(s):
        return z3.Length(s)
    return len(s)


def cat(*parts):
    if _any_sym(parts):
        ps = [p if is_sym(p) else z3.StringVal(to_z3_str(p)) for p in parts]
        if len(ps) == 1:
            return ps[0]
        return z3.Concat(*ps)
    if any(isinstance(p, bytes) for p in parts):
        parts = [p.encode('latin-1') if isinstance(p, str) else p for p in parts]
    out = parts[0]
    for p in parts[1:]:
        out = out + p
    return out


def sub(s, lo, hi):
    """s[lo:hi] for 0 <= lo <= hi <= len(s) (the caller's context guarantees the range)."""
    if is_sym(s) or is_sym(lo) or is_sym(hi):
        if not is_sym(s):
            s = z3.StringVal(to_z3_str(s))
        return z3.SubString(s, lo, hi - lo)
    return s[lo:hi]


def suffix_of(a, b):
    if is_sym(a) or is_sym(b):
        a, b = _lift(a, b)
        return z3.SuffixOf(a, b)
    return b.endswith(a)


def prefix_of(a, b):
    if is_sym(a) or is_sym(b):
        a, b = _lift(a, b)
        return z3.PrefixOf(a, b)
    return b.startswith(a)


def last_n(s, n):
    """The last min(n, len(s)) characters of s, n >= 0."""
    if is_sym(s) or is_sym(n):
        L = length(s)
        k = z3.If(n < L, n, L) if is_sym(n) or is_sym(L) else min(n, L)
        return z3.SubString(s, L - k, k)
    if n <= 0:
        return s[:0]
    return s[-n:] if n < len(s) else s


def smin(a, b):
    if is_sym(a) or is_sym(b):
        return z3.If(a <= b, a, b)
    return min(a, b)


def smax(a, b):
    if is_sym(a) or is_sym(b):
        return z3.If(a >= b, a, b)
    return max(a, b)


def truthy_int(x):
    if is_sym(x):
        return x != 0
    return bool(x)


# ---- bounded quantifiers --------------------------------------------------------------------------
class QForall:
    """forall k. lo <= k < hi  ==>  body(k)   (symbolic mode; must be a top-level clause).
    As a goal it is skolemised; as a hypothesis it is instantiated by the engine (trigger terms:
    skolem constants, array/sequence indices occurring in the obligation, `hints`)."""
    def __init__(self, lo, hi, fn, hints=()):
        self.lo, self.hi, self.fn, self.hints = lo, hi, fn, tuple(hints)

    def instance(self, k):
        body = self.fn(k)
        if isinstance(body, QForall):
            return QGuard(And(self.lo <= k, k < self.hi), body)
        return Implies(And(self.lo <= k, k < self.hi), body)


class QGuard:
    """guard ==> (nested quantified fact)"""
    def __init__(self, guard, q):
        self.guard, self.q = guard, q


def forall(lo, hi, fn, hints=(), as_hypothesis=None):
    """as_hypothesis: an equivalent (or weaker-to-instantiate) quantified fact used when the clause is
    assumed rather than proved, e.g. injectivity through a left inverse instead of a nested quantifier."""
    if is_sym(lo) or is_sym(hi):
        d = z3.simplify(hi - lo)
        if z3.is_int_value(d) and d.as_long() <= 0:
            return True
        q = QForall(lo, hi, fn, hints)
        if as_hypothesis is not None:
            q.hyp_alt = as_hypothesis()
        return q
    parts = []
    for k in range(lo, hi):
        r = fn(k)
        if isinstance(r, QForall):
            raise TypeError('symbolic body under a concrete quantifier')
        if is_sym(r):
            parts.append(r)         # finitely many symbolic instances: their conjunction
        elif not r:
            return False
    return And(*parts) if parts else True


def forall_sym(lo, hi, fn, hints=()):
    """Always build the symbolic quantifier (bounds may be concrete z3 numerals)."""
    if z3 is None or not (is_sym(lo) or is_sym(hi) or _FORCE_SYM[0]):
        return forall(lo, hi, fn, hints)
    return QForall(lo, hi, fn, hints)


_FORCE_SYM = [False]


# ---- pattern-list elements and ghost arrays --------------------------------------------------------
class Pat:
    """Symbolic pattern-list element (see values.VPat)."""
    def __init__(self, iseof, isto, val):
        self.iseof, self.isto, self.val = iseof, isto, val


def pat_is_eof(x):
    if isinstance(x, Pat):
        return x.iseof
    return x is ClassConst('EOF')


def pat_is_timeout(x):
    if isinstance(x, Pat):
        return And(Not(x.iseof), x.isto)
    return x is ClassConst('TIMEOUT')


def pat_is_text(x):
    if isinstance(x, Pat):
        return And(Not(x.iseof), Not(x.isto))
    return not isinstance(x, ClassConst)


def pat_val(x):
    return x.val if isinstance(x, Pat) else x


class ConcArray(dict):
    """Concrete ghost array (total map with default)."""
    def __init__(self, default=0):
        dict.__init__(self)
        self.default = default


def select(a, i):
    if is_sym(a) or is_sym(i):
        return z3.Select(a, i)
    return a.get(i, a.default)


def store(a, i, v):
    if is_sym(a) or is_sym(i) or is_sym(v):
        return z3.Store(a, i, v)
    b = ConcArray(a.default)
    b.update(a)
    b[i] = v
    return b


# ---- occurrences and str.find ------------------------------------------------------------------------
if z3 is not None:
    Find = z3.Function('Find', z3.StringSort(), z3.StringSort(), z3.IntSort(), z3.IntSort())
    OccP = z3.Function('Occ', z3.StringSort(), z3.StringSort(), z3.IntSort(), z3.BoolSort())


def norm_start(off, L):
    """Python's clamping of a (possibly negative) start offset into [0, L]."""
    if isinstance(off, int) and off == 0:
        return 0
    if is_sym(off) or is_sym(L):
        return z3.If(off < 0, z3.If(off + L < 0, 0, off + L), z3.If(off > L, L, off))
    if off < 0:
        return max(off + L, 0)
    return min(off, L)


def lemma_incremental_find(P, w, s, fresh):
    """LEMMA incremental_find (proved on every run by contracts/extra_c03.py from the definition of Find; here only
    instantiated).  Let w be a suffix of P that is all of P or reaches at least max(|s|,1)-1 characters behind the last `fresh`
    characters, and let s not occur in P[:|P|-fresh] (or let that prefix be empty).  Then searching w from
    `-(fresh+|s|)` (Python's clamping) finds exactly the first occurrence of s in P:
        Find(P, s, 0) == (-1 if f == -1 else f + |P| - |w|)      where f = w.find(s, -(fresh + len(s)))"""
    if not (is_sym(P) or is_sym(w) or is_sym(s) or is_sym(fresh)):
        hyp = P.endswith(w) and 0 <= fresh <= len(P) and (w == P or len(w) >= fresh + max(len(s), 1) - 1) and \
            (fresh == len(P) or P[:len(P) - fresh].find(s) == -1)
        f = w.find(s, -(fresh + len(s)))
        return (not hyp) or P.find(s) == (-1 if f == -1 else f + len(P) - len(w))
    P, w, s = [x if is_sym(x) else z3.StringVal(to_z3_str(x)) for x in (P, w, s)]
    LP, Lw, m = z3.Length(P), z3.Length(w), z3.Length(s)
    Pold = z3.SubString(P, 0, LP - fresh)
    hyp = z3.And(z3.SuffixOf(w, P), 0 <= fresh, fresh <= LP, z3.Or(w == P, Lw >= fresh + z3.If(m >= 1, m, 1) - 1),
                 z3.Or(fresh == LP, find_from(Pold, s, 0) == -1))
    f = find_from(w, s, -(fresh + m))
    return z3.Implies(hyp, find_from(P, s, 0) == z3.If(f == -1, -1, f + LP - Lw))


def find_from(buf, s, off):
    """buf.find(s, off): -1 or the least occurrence position >= the clamped offset."""
    if is_sym(buf) or is_sym(s) or is_sym(off):
        buf, s = (buf if is_sym(buf) else z3.StringVal(to_z3_str(buf))), (s if is_sym(s) else z3.StringVal(to_z3_str(s)))
        return Find(buf, s, norm_start(off, z3.Length(buf)))
    return buf.find(s, off)


def occ(text, s, p):
    """s occurs in text at position p."""
    if is_sym(text) or is_sym(s) or is_sym(p):
        return OccP(text, s, p)
    return 0 <= p and p + len(s) <= len(text) and text[p:p + len(s)] == s


# ---- regular expressions (assumed contract of re.Pattern.search) -----------------------------------
if z3 is not None:
    ReFind = z3.Function('ReFind', Val, z3.StringSort(), z3.IntSort(), z3.IntSort())     # start of the match or -1
    ReMatch = z3.Function('ReMatch', Val, z3.StringSort(), z3.IntSort(), Val)            # the match object
    MStart = z3.Function('MStart', Val, z3.IntSort())
    MEnd = z3.Function('MEnd', Val, z3.IntSort())


def re_find(r, buf, pos):
    """Start of the match r.search(buf, pos) selects, or -1."""
    if is_sym(r) or is_sym(buf) or is_sym(pos):
        return ReFind(r, buf, pos)
    m = r.search(buf, pos)
    return -1 if m is None else m.start()


def re_match_start(m):
    return MStart(m) if is_sym(m) else m.start()


def re_match_end(m):
    return MEnd(m) if is_sym(m) else m.end()


def re_match_of(r, buf, pos):
    """The match object for (r, buf, pos); concretely two searches give equal spans, not identical objects."""
    if is_sym(r) or is_sym(buf) or is_sym(pos):
        return ReMatch(r, buf, pos)
    return r.search(buf, pos)


def same_match(a, b):
    if is_sym(a) or is_sym(b):
        return a == b
    if a is None or b is None:
        return a is b
    return a is b or (a.re is b.re and a.string is b.string and a.span() == b.span() and a.pos == b.pos)


class QForall2:
    """forall a, b. body(a, b)   (guards inside the body).  Instantiated at index pairs (i, j) that occur
    together in two-dimensional array reads of the obligation, at skolem pairs, and at `hints`."""
    def __init__(self, fn, hints=()):
        self.fn, self.hints = fn, tuple(hints)


def forall2(r_lo, r_hi, c_lo, c_hi, fn):
    """forall r in [r_lo, r_hi), c in [c_lo, c_hi). fn(r, c)"""
    if any(is_sym(x) for x in (r_lo, r_hi, c_lo, c_hi)) or _FORCE_SYM[0]:
        return QForall2(lambda a, b: Implies(And(r_lo <= a, a < r_hi, c_lo <= b, b < c_hi), fn(a, b)))
    return all(fn(a, b) for a in range(r_lo, r_hi) for b in range(c_lo, c_hi))


def injective_rows(w, n):
    """rows 0..n-1 of the grid are pairwise distinct objects.  Proved in the nested form; assumed through a
    left inverse RowPos (rowid(i) == rowid(j) ==> i == RowPos(..) == j), which needs only linear instantiation."""
    def hyp():
        arr = w._h.fields['rowid']
        RowPos = z3.Function('RowPos', arr.sort(), z3.IntSort(), z3.IntSort(), z3.IntSort())
        return QForall(0, n, lambda i: RowPos(arr, n, z3.Select(arr, i)) == i)
    return forall(0, n, lambda i: forall(i + 1, n, lambda j: Not(eq(w.rowid(i), w.rowid(j)))),
                  as_hypothesis=hyp if is_sym(n) else None)


# ---- digit strings (ANSI parameters) -------------------------------------------------------------------
if z3 is not None:
    IsDigits = z3.Function('IsDigits', z3.StringSort(), z3.BoolSort())
    IntOf = z3.Function('IntOf', z3.StringSort(), z3.IntSort())


def is_digits(s):
    """s consists of decimal digits only (what int() accepts without sign or spaces)"""
    if is_sym(s):
        return IsDigits(s)
    return len(s) > 0 and all(c in '0123456789' for c in s)


def int_of(s):
    if is_sym(s):
        return IntOf(s)
    return int(s)


# ---- abstract terminal state (C18 fold argument) -----------------------------------------------------
if z3 is not None:
    TermProc = z3.Function('TermProc', Val, z3.StringSort(), Val)      # abstract state after one character
    TermCur = z3.Function('TermCur', Val, z3.StringSort())            # parser state it determines
    TermR = z3.Function('TermR', Val, z3.IntSort())
    TermC = z3.Function('TermC', Val, z3.IntSort())


def witness(v, name, n, pred, default=0):
    """An existential witness: in the prover the ghost / drawn value `name`; concretely the least k < n with pred(k)."""
    if getattr(v, 'concrete', False):
        for k in range(n):
            if pred(k):
                return k
        return default
    w = getattr(v, name, None)
    if w is None:
        w = v.g[name]
    return w


class WitnessArray:
    """concrete ghost array j -> least k < n with rel(j, k)"""
    def __init__(self, n, rel):
        self.n, self.rel = n, rel
        self.default = -1

    def get(self, j, default=None):
        for k in range(self.n):
            if self.rel(j, k):
                return k
        return -1


# ---- joining a list of strings ------------------------------------------------------------------------------
def join_list(sep, arr, n):
    """sep.join(list) for a symbolic list given as (array, length); concretely a python list"""
    if z3 is not None and (is_sym(arr) or is_sym(n)):
        F = z3.Function('JoinList', z3.StringSort(), z3.ArraySort(z3.IntSort(), z3.StringSort()), z3.IntSort(), z3.StringSort())
        sepz = sep if is_sym(sep) else z3.StringVal(to_z3_str(sep))
        return F(sepz, arr, n if is_sym(n) else z3.IntVal(n))
    return sep.join(arr[:n])


def list_join(sep, lst):
    """spec-level: sep.join(lst) for a list view (symbolic or concrete)"""
    if hasattr(lst, '_heap'):
        h = lst._heap[lst._oid]
        if h.kind == 'symlist':
            return join_list(sep, h.fields['comps'][0][0], h.fields['len'].t)
        return cat(*([''] + [x for i, it in enumerate(lst.items_spec()) for x in ([sep] if i else []) + [it]]))
    return sep.join(lst.items)


# ---- compiled regular expressions as values (C20) --------------------------------------------------------------
if z3 is not None:
    ReCompile = z3.Function('ReCompile', z3.StringSort(), z3.BoolSort(), z3.IntSort(), Val)   # (pattern text, is bytes, flags)
    RePatText = z3.Function('RePatText', Val, z3.StringSort())
    RePatIsBytes = z3.Function('RePatIsBytes', Val, z3.BoolSort())
    ReFlags = z3.Function('ReFlags', Val, z3.IntSort())
    BitAnd = z3.Function('bitand', z3.IntSort(), z3.IntSort(), z3.IntSort())


def _to_kind(text, is_bytes):
    if is_bytes and isinstance(text, str):
        return text.encode('utf-8')
    if not is_bytes and isinstance(text, bytes):
        return text.decode('utf-8')
    return text


def re_compile(text, is_bytes, flags):
    """re.compile(text, flags): a function of (text, string type, flags); equal arguments select the same occurrences"""
    if not (is_sym(text) or is_sym(is_bytes) or is_sym(flags)) and (z3 is None or isinstance(text, (bytes, str))):
        import re
        try:
            return re.compile(_to_kind(text, is_bytes), flags)
        except (ValueError, UnicodeError, re.error, TypeError):
            return None
    t = text if is_sym(text) else z3.StringVal(to_z3_str(text))
    b = is_bytes if is_sym(is_bytes) else z3.BoolVal(bool(is_bytes))
    f = flags if is_sym(flags) else z3.IntVal(int(flags))
    return ReCompile(t, b, f)


def re_pat_text(r):
    return RePatText(r) if is_sym(r) else getattr(r, 'pattern', None)


def re_is_bytes(r):
    return RePatIsBytes(r) if is_sym(r) else isinstance(getattr(r, 'pattern', None), bytes)


def re_flags(r):
    return ReFlags(r) if is_sym(r) else getattr(r, 'flags', 0)


def bit_and(x, mask):
    if is_sym(x):
        return BitAnd(x, z3.IntVal(mask))
    return x & mask


def utf8_transcode(text, to_bytes):
    """pattern text carried to the other string type (UTF-8)"""
    if is_sym(text):
        f = z3.Function('encode_utf8' if to_bytes else 'decode_utf8', z3.StringSort(), z3.StringSort())
        return f(text)
    try:
        return _to_kind(text, to_bytes)
    except UnicodeError:
        return None


class Union:
    """spec view of a VUnion"""
    def __init__(self, tag, alts):
        self.tag, self.alts = tag, dict(alts)
        self.labels = [a for a, _ in alts]

    def is_(self, label):
        return self.tag == self.labels.index(label)

    def val(self, label):
        return self.alts[label]


class ConcUnion:
    """the same view of a concrete object: it is the alternative its own type says"""
    def __init__(self, label, value):
        self.label, self.value = label, value

    def is_(self, label):
        return self.label == label

    def val(self, label):
        return self.value if label == self.label else None


def ascii_only(x):
    """every character of x is ASCII.  Decided structurally for literals, decimal renderings of integers and their
    concatenations; otherwise the same uninterpreted predicate the model of str.encode('ascii') branches on."""
    if not is_sym(x):
        return all((c if isinstance(c, int) else ord(c)) < 128 for c in x)

    def structurally(t):
        if z3.is_string_value(t):
            v = t.as_string()
            return all(ord(c) < 128 for c in v) and '\\u{' not in v
        if z3.is_app(t) and t.decl().kind() == z3.Z3_OP_SEQ_CONCAT:
            return all(structurally(c) for c in t.children())
        if z3.is_app(t) and t.decl().kind() == z3.Z3_OP_INT_TO_STR:
            return True
        if z3.is_app(t) and t.decl().kind() == z3.Z3_OP_ITE:
            return structurally(t.arg(1)) and structurally(t.arg(2))
        return False
    if structurally(x):
        return True
    return z3.Function('encodeable_ascii', z3.StringSort(), z3.BoolSort())(x)
