"""Heap model of a list of row lists (the screen grid), with row identity so that aliasing is visible.

A grid object has  len : Int,  rowid : Array(Int -> Int),  rowlen : Array(Int -> Int),
cell : Array(Int, Int -> String).  A write through row i changes every row with the same rowid
(Python semantics of shared row lists); under the ownership invariant (pairwise distinct rowids) that
is a single-row update.  Fresh rows get ids from the ghost allocator `nextid`.
New arrays are introduced as fresh constants constrained by quantified facts, which the engine
instantiates at the index pairs occurring in each obligation (formulas stay quantifier-free).
"""
import ast
import z3
from .values import *
from .engine import *
from . import spec as S

IntArr = z3.ArraySort(z3.IntSort(), z3.IntSort())
CellArr = z3.ArraySort(z3.IntSort(), z3.ArraySort(z3.IntSort(), z3.StringSort()))


def sel2(a, i, j):
    """cell[i][j] (nested standard arrays, so every back end can read the obligation)"""
    return z3.Select(z3.Select(a, i), j)


class VRow(V):
    def __init__(self, oid, i):
        self.oid, self.i = oid, i

    def __repr__(self):
        return 'VRow(#%d,%s)' % (self.oid, self.i)


class GridView:
    """Spec view of a grid (0-based indices)."""
    def __init__(self, ctx, heap, oid):
        self._h = heap[oid]
        self._oid = oid

    @property
    def len(self):
        return self._h.fields['len'].t

    def cell(self, i, j):
        return sel2(self._h.fields['cell'], i, j)

    def rowid(self, i):
        return z3.Select(self._h.fields['rowid'], i)

    def rowlen(self, i):
        return z3.Select(self._h.fields['rowlen'], i)


def new_grid(ctx, hint, n=None):
    f = {'len': VInt(n if n is not None else ctx._const(hint + '.len', z3.IntSort())),
         'rowid': z3.Const(ctx.fresh_name(hint + '.rowid'), IntArr),
         'rowlen': z3.Const(ctx.fresh_name(hint + '.rowlen'), IntArr),
         'cell': z3.Const(ctx.fresh_name(hint + '.cell'), CellArr)}
    return ctx.alloc(HObj('list', 'grid', f, closed=True))


def nextid(ctx):
    if 'nextid' not in ctx.ghost:
        ctx.ghost['nextid'] = ctx._const('nextid', z3.IntSort())
    return ctx.ghost['nextid']


def norm(I, t, n, tag):
    """python clamp of a slice bound for a list of length n"""
    ctx = I.ctx
    if t is None or isinstance(t, VNone):
        return None
    t = I.as_int(t, 'slice bound')
    if ctx.decide(t < 0, tag + '<0'):
        if ctx.decide(t + n < 0, tag + '+n<0'):
            return z3.IntVal(0)
        return z3.simplify(t + n)
    if ctx.decide(t > n, tag + '>n'):
        return n
    return t


class GridHook:
    def len(self, I, v):
        return I.ctx.heap[v.oid].fields['len']

    def index(self, I, base, idx, node):
        ctx = I.ctx
        h = ctx.heap[base.oid]
        n = h.fields['len'].t
        i = I.as_int(idx, 'row index')
        if ctx.decide(i < 0, 'rowidx<0'):
            i = z3.simplify(i + n)
        ctx.safe(z3.And(i >= 0, i < n), 'row-index-in-range', 'line %s' % getattr(node, 'lineno', '?'))
        return VRow(base.oid, i)

    def slice(self, I, base, lo, hi, node):
        """w[a:b]: a new list object holding the SAME row objects (same rowids)."""
        ctx = I.ctx
        h = ctx.heap[base.oid]
        n = h.fields['len'].t
        tag = 'gslice@%s' % getattr(node, 'lineno', '?')
        a = norm(I, lo, n, tag + '.lo')
        b = norm(I, hi, n, tag + '.hi')
        a = z3.IntVal(0) if a is None else a
        b = n if b is None else b
        if ctx.decide(b < a, tag + '.empty'):
            b = a
        m = z3.simplify(b - a)
        g = new_grid(ctx, 'slice', m)
        gh = ctx.heap[g.oid].copy()
        src = dict(h.fields)        # closures below are evaluated later: freeze the arrays they talk about
        ctx.assume(S.QForall(z3.IntVal(0), m, lambda k: z3.And(
            z3.Select(gh.fields['rowid'], k) == z3.Select(src['rowid'], k + a),
            z3.Select(gh.fields['rowlen'], k) == z3.Select(src['rowlen'], k + a))))
        ctx.assume(S.QForall2(lambda k, j: z3.Implies(z3.And(k >= 0, k < m),
                                                      sel2(gh.fields['cell'], k, j) == sel2(src['cell'], k + a, j))))
        return g

    def assign_sub(self, I, base, target, v, fr):
        """w[a:b] = other   (slice assignment; may change the length)"""
        ctx = I.ctx
        h = ctx.heap[base.oid]
        if not isinstance(target.slice, ast.Slice):
            raise Unsupported('row replacement w[i] = ...')
        if not (isinstance(v, VObj) and ctx.heap[v.oid].kind == 'grid'):
            raise Unsupported('slice assignment from %r' % (v,))
        src = dict(ctx.heap[v.oid].fields)
        n = h.fields['len'].t
        sl = target.slice
        lo = I.eval(sl.lower, fr) if sl.lower is not None else None
        hi = I.eval(sl.upper, fr) if sl.upper is not None else None
        tag = 'gassign@%s' % target.lineno
        a = norm(I, lo, n, tag + '.lo')
        b = norm(I, hi, n, tag + '.hi')
        a = z3.IntVal(0) if a is None else a
        b = n if b is None else b
        if ctx.decide(b < a, tag + '.insert'):
            b = a
        m = src['len'].t
        newlen = z3.simplify(n - (b - a) + m)
        old = dict(h.fields)
        rowid2 = z3.Const(ctx.fresh_name('w.rowid'), IntArr)
        rowlen2 = z3.Const(ctx.fresh_name('w.rowlen'), IntArr)
        cell2 = z3.Const(ctx.fresh_name('w.cell'), CellArr)
        shift = z3.simplify(m - (b - a))

        def pick(arr_old, arr_src, k):
            return z3.If(k < a, z3.Select(arr_old, k),
                         z3.If(k < a + m, z3.Select(arr_src, k - a), z3.Select(arr_old, k - shift)))
        ctx.assume(S.QForall(z3.IntVal(0), newlen, lambda k: z3.And(
            z3.Select(rowid2, k) == pick(old['rowid'], src['rowid'], k),
            z3.Select(rowlen2, k) == pick(old['rowlen'], src['rowlen'], k))))
        ctx.assume(S.QForall2(lambda k, j: z3.Implies(z3.And(k >= 0, k < newlen), sel2(cell2, k, j) == z3.If(
            k < a, sel2(old['cell'], k, j),
            z3.If(k < a + m, sel2(src['cell'], k - a, j), sel2(old['cell'], k - shift, j))))))
        h.fields.update(len=VInt(newlen), rowid=rowid2, rowlen=rowlen2, cell=cell2)

    # ---- rows --------------------------------------------------------------------------------
    def row_get(self, I, row, idx, node):
        ctx = I.ctx
        h = ctx.heap[row.oid]
        j = I.as_int(idx, 'column index')
        n = z3.Select(h.fields['rowlen'], row.i)
        if ctx.decide(j < 0, 'colidx<0'):
            j = z3.simplify(j + n)
        ctx.safe(z3.And(j >= 0, j < n), 'column-index-in-range', 'line %s' % getattr(node, 'lineno', '?'))
        return VStr(sel2(h.fields['cell'], row.i, j), 's')

    def row_set(self, I, row, idx, v, node):
        ctx = I.ctx
        h = ctx.heap[row.oid]
        j = I.as_int(idx, 'column index')
        n = z3.Select(h.fields['rowlen'], row.i)
        if ctx.decide(j < 0, 'colidx<0'):
            j = z3.simplify(j + n)
        ctx.safe(z3.And(j >= 0, j < n), 'column-index-in-range', 'line %s' % getattr(node, 'lineno', '?'))
        if not isinstance(v, VStr):
            raise Unsupported('grid cell value %r' % (v,))
        old_cell, rowid = h.fields['cell'], h.fields['rowid']
        cell2 = z3.Const(ctx.fresh_name('w.cell'), CellArr)
        i = row.i
        # python: the row object is shared by every position holding the same row id
        ctx.assume(S.QForall2(lambda a, b: sel2(cell2, a, b) == z3.If(
            z3.And(z3.Select(rowid, a) == z3.Select(rowid, i), b == j), v.t, sel2(old_cell, a, b)),
            hints=[(i, j)]))
        h.fields['cell'] = cell2

    def row_text(self, I, row):
        h = I.ctx.heap[row.oid]
        F = z3.Function('RowText', CellArr, z3.IntSort(), z3.IntSort(), z3.StringSort())
        return VStr(F(h.fields['cell'], row.i, z3.Select(h.fields['rowlen'], row.i)), 's')

    def deepcopy(self, I, v):
        ctx = I.ctx
        src = dict(ctx.heap[v.oid].fields)
        m = src['len'].t
        g = new_grid(ctx, 'copy', m)
        gh = dict(ctx.heap[g.oid].fields)
        base = nextid(ctx)
        ctx.assume(S.QForall(z3.IntVal(0), m, lambda k: z3.And(
            z3.Select(gh['rowid'], k) == base + k,
            z3.Select(gh['rowlen'], k) == z3.Select(src['rowlen'], k))))
        ctx.assume(S.QForall2(lambda k, j: z3.Implies(z3.And(k >= 0, k < m),
                                                      sel2(gh['cell'], k, j) == sel2(src['cell'], k, j))))
        ctx.ghost['nextid'] = z3.simplify(base + m)
        return g

    def from_template(self, I, count, item, width):
        """[[item] * width for _ in range(count)]"""
        ctx = I.ctx
        g = new_grid(ctx, 'w', count)
        gh = dict(ctx.heap[g.oid].fields)
        base = nextid(ctx)
        ctx.assume(S.QForall(z3.IntVal(0), count, lambda k: z3.And(
            z3.Select(gh['rowid'], k) == base + k, z3.Select(gh['rowlen'], k) == width)))
        ctx.assume(S.QForall2(lambda k, j: sel2(gh['cell'], k, j) == item.t))
        ctx.ghost['nextid'] = z3.simplify(base + count)
        return g
