"""Front end: the verified text is the code that runs.

Parses $VERIF_REPO/pexpect/*.py on every run (nothing cached), builds a class table and
locates functions by qualified name.  Extraction drops exactly: comments, docstrings, type
annotations, and the dead arms of `PY3` / `sys.version_info` / `sys.platform` tests (evaluated
for CPython 3 on Linux and reported as platform-pruned).  Nothing else.
"""
import ast, hashlib, os

REPO = os.environ.get('VERIF_REPO', '/repo')


class FuncInfo:
    def __init__(self, qual, module, cls, node, src, path):
        self.qual, self.module, self.cls, self.node, self.src, self.path = qual, module, cls, node, src, path
        self.sha = hashlib.sha256(src.encode()).hexdigest()
        self.lines = (node.lineno, node.end_lineno)
        self.is_static = any(isinstance(d, ast.Name) and d.id == 'staticmethod' for d in node.decorator_list)
        self.is_ctxmgr = any((isinstance(d, ast.Name) and d.id == 'contextmanager') or
                             (isinstance(d, ast.Attribute) and d.attr == 'contextmanager') for d in node.decorator_list)


class ClassInfo:
    def __init__(self, qual, module, node):
        self.qual, self.module, self.node = qual, module, node
        self.bases = []          # qualified names where resolvable, else raw text
        self.methods = {}        # name -> FuncInfo
        self.attrs = {}          # class-level constant assignments: name -> ast expr
        self.properties = {}     # name -> (getter name, setter name)


class Program:
    def __init__(self, repo=None):
        self.repo = repo or REPO
        self.modules = {}        # 'pexpect.expect' -> ast.Module
        self.sources = {}
        self.funcs = {}          # qualified name -> FuncInfo
        self.classes = {}        # qualified name -> ClassInfo
        self.imports = {}        # module -> {local name: qualified target}
        self.pruned = []         # platform-pruned branches (file:line)
        self._load()

    def _load(self):
        pkg = os.path.join(self.repo, 'pexpect')
        for fn in sorted(os.listdir(pkg)):
            if not fn.endswith('.py'):
                continue
            path = os.path.join(pkg, fn)
            src = open(path, encoding='utf-8').read()
            mod = 'pexpect' if fn == '__init__.py' else 'pexpect.' + fn[:-3]
            try:
                tree = ast.parse(src)
            except SyntaxError:
                continue
            self.modules[mod] = tree
            self.sources[mod] = src
            self.imports[mod] = {}
            self._index_module(mod, tree, src, path)
        # resolve bases
        for ci in self.classes.values():
            res = []
            for b in ci.node.bases:
                res.append(self.canonical(self._resolve_name(ci.module, b)))
            ci.bases = res

    def canonical(self, q, depth=0):
        """follow re-exports: pexpect.spawn -> pexpect.pty_spawn.spawn"""
        if q in self.classes or q in self.funcs or depth > 4:
            return q
        mod, _, nm = q.rpartition('.')
        tgt = self.imports.get(mod, {}).get(nm)
        if tgt and tgt != q:
            return self.canonical(tgt, depth + 1)
        return q

    def _resolve_name(self, module, node):
        if isinstance(node, ast.Name):
            q = self.imports[module].get(node.id)
            if q:
                return q
            if module + '.' + node.id in self.classes:
                return module + '.' + node.id
            return node.id
        if isinstance(node, ast.Attribute):
            base = self._resolve_name(module, node.value)
            return base + '.' + node.attr
        return ast.dump(node)

    def _index_module(self, mod, tree, src, path):
        pkgbase = 'pexpect'
        body = list(tree.body)
        # imports nested in top-level if / try blocks (platform switches) count as module-level imports
        def live_imports(node):
            """imports under module-level if / try blocks; an `if sys.version_info ...` test is decided for this
            interpreter (CPython 3), so only the live arm counts (listed as platform-pruned)"""
            if isinstance(node, ast.If):
                srctest = ast.unparse(node.test)
                known = {'sys', 'py_version_info', 'version_info', 'PY3'}
                names = {n.id for n in ast.walk(node.test) if isinstance(n, ast.Name)}
                if names and names <= known and ('version_info' in srctest or 'PY3' in srctest):
                    try:
                        import sys
                        live = bool(eval(srctest, {'sys': sys, 'PY3': True, 'py_version_info': sys.version_info,
                                                   'version_info': sys.version_info}))
                    except Exception:
                        live = None
                    if live is not None:
                        self.pruned.append('%s:%d' % (os.path.basename(path), node.lineno))
                        for sub in (node.body if live else node.orelse):
                            yield from live_imports(sub)
                        return
                for sub in node.body + node.orelse:
                    yield from live_imports(sub)
            elif isinstance(node, ast.Try):
                for sub in node.body + [x for h in node.handlers for x in h.body] + node.orelse + node.finalbody:
                    yield from live_imports(sub)
            elif isinstance(node, (ast.ImportFrom, ast.Import)):
                yield node
        for node in tree.body:
            if isinstance(node, (ast.If, ast.Try)):
                body.extend(live_imports(node))
        for node in body:
            if isinstance(node, ast.ImportFrom):
                if node.level >= 1:
                    target = pkgbase + ('.' + node.module if node.module else '')
                else:
                    target = node.module or ''
                for a in node.names:
                    self.imports[mod][a.asname or a.name] = target + '.' + a.name
            elif isinstance(node, ast.Import):
                for a in node.names:
                    self.imports[mod][a.asname or a.name.split('.')[0]] = a.name if a.asname else a.name.split('.')[0]
            elif isinstance(node, (ast.FunctionDef, ast.AsyncFunctionDef)):
                q = mod + '.' + node.name
                self.funcs[q] = FuncInfo(q, mod, None, node, ast.get_source_segment(src, node), path)
            elif isinstance(node, ast.ClassDef):
                cq = mod + '.' + node.name
                ci = ClassInfo(cq, mod, node)
                self.classes[cq] = ci
                for it in node.body:
                    if isinstance(it, (ast.FunctionDef, ast.AsyncFunctionDef)):
                        is_setter = any(isinstance(d, ast.Attribute) and d.attr == 'setter' for d in it.decorator_list)
                        nm = it.name + '#setter' if is_setter else it.name
                        q = cq + '.' + nm
                        fi = FuncInfo(q, mod, cq, it, ast.get_source_segment(src, it), path)
                        # later definitions with the same name override earlier ones, as in Python
                        # (a @x.setter definition is kept beside the getter)
                        self.funcs[q] = fi
                        ci.methods[nm] = fi
                    elif isinstance(it, ast.Assign) and len(it.targets) == 1 and isinstance(it.targets[0], ast.Name):
                        name = it.targets[0].id
                        v = it.value
                        if isinstance(v, ast.Call) and isinstance(v.func, ast.Name) and v.func.id == 'property':
                            g = v.args[0].id if len(v.args) > 0 and isinstance(v.args[0], ast.Name) else None
                            s = v.args[1].id if len(v.args) > 1 and isinstance(v.args[1], ast.Name) else None
                            ci.properties[name] = (g, s)
                        else:
                            ci.attrs[name] = v
                # decorator style properties
                for it in node.body:
                    if isinstance(it, ast.FunctionDef):
                        for d in it.decorator_list:
                            if isinstance(d, ast.Name) and d.id == 'property':
                                ci.properties.setdefault(it.name, (it.name, None))
                            if isinstance(d, ast.Attribute) and d.attr == 'setter':
                                g, _ = ci.properties.get(it.name, (it.name, None))
                                ci.properties[it.name] = (g, it.name + '#setter')

    # ---- lookups --------------------------------------------------------------------
    def mro(self, cq):
        out, seen = [], set()

        def walk(c):
            if c in seen or c not in self.classes:
                return
            seen.add(c)
            out.append(c)
            for b in self.classes[c].bases:
                walk(b)
        walk(cq)
        return out

    def find_method(self, cq, name, after=None):
        """Resolve cq.name along the MRO; `after` = class after which to start (super())."""
        chain = self.mro(cq)
        if after is not None and after in chain:
            chain = chain[chain.index(after) + 1:]
        for c in chain:
            fi = self.classes[c].methods.get(name)
            if fi is not None:
                return fi
        return None

    def find_property(self, cq, name):
        for c in self.mro(cq):
            if name in self.classes[c].properties:
                return c, self.classes[c].properties[name]
        return None

    def class_attr(self, cq, name):
        for c in self.mro(cq):
            if name in self.classes[c].attrs:
                return self.classes[c].attrs[name]
        return None

    def func(self, qual):
        return self.funcs.get(qual)

    def is_subclass(self, cq, base):
        return base in self.mro(cq)
