"""Concrete evaluation of sidecar contracts on the REAL pexpect code.

Run under /venv/bin/python (pexpect is an editable install of /repo there; VERIF_REPO, when set,
is put first on sys.path so the same tree the VCs came from is the one executed).  Used for
  * replay of a solver counter-model (ModelSource),
  * the bounded exhaustive / random stand-in (EnumSource / RandomSource),
  * the CPython cross-check of proved contracts.
The contract text is the same one the prover used: shapes build real objects here, views read
real attributes, spec functions compute on Python values.
"""
import io, os, sys, random, importlib, re, json

_repo = os.environ.get('VERIF_REPO')
if _repo:
    sys.path.insert(0, _repo)
sys.path.insert(0, os.path.dirname(os.path.dirname(os.path.abspath(__file__))))

from pyvc.types import *
from pyvc.cbase import Contract, Outcome
from pyvc.spec import ClassConst


class OutOfDomain(Exception):
    """The drawn input violates a precondition / interface contract: discard the case."""


class Unrepresentable(Exception):
    pass


class HiddenC:
    def __init__(self, n):
        self.n = n


class Opaque:
    """A value the contracts never look into."""
    def __init__(self, name):
        self.name = name

    def __repr__(self):
        return '<opaque %s>' % self.name


# ---------------------------------------------------------------------------------------------
# sources of leaf values
# ---------------------------------------------------------------------------------------------
class Source:
    def __init__(self):
        self.counter = {}
        self.log = {}
        self.ghost = {}

    def fresh_name(self, hint):
        n = self.counter.get(hint, 0)
        self.counter[hint] = n + 1
        return hint if n == 0 else '%s!%d' % (hint, n)


class ModelSource(Source):
    """Values from a solver model (leaf dict + extra named constants + outcome labels)."""
    def __init__(self, case, model, extra, tags):
        Source.__init__(self)
        self.case, self.model, self.extra = case, model, extra
        self.tags = [list(t) for t in tags]

    def choice(self, name, options):
        if name in self.case:
            lab = self.case[name]
            for o in options:
                if (o[0] if isinstance(o, tuple) else o) == lab:
                    return o
        for i, t in enumerate(self.tags):
            if t[0] == name:
                self.tags.pop(i)
                for o in options:
                    if str(o) == t[1]:
                        return o
        return options[0]

    def _get(self, name, default):
        name = self.fresh_name(name)
        if name in self.model:
            return self.model[name]
        if name in self.extra:
            return self.extra[name]
        return default

    def int(self, name):
        return int(self._get(name, 0))

    def real(self, name):
        v = self._get(name, 0.0)
        return float(v) if not isinstance(v, str) else 0.0

    def bool(self, name):
        return bool(self._get(name, False))

    def str(self, name, kind):
        return conv_str(self._get(name, ''), kind)

    def size(self, name):
        return int(self._get(name, 0))


class Bounds:
    def __init__(self, alphabet='ab', maxlen=3, ints=(-1, 0, 1, 2, 3), reals=(0.0, 0.5), sizes=(0, 1, 2)):
        self.alphabet, self.maxlen, self.ints, self.reals, self.sizes = alphabet, maxlen, ints, reals, sizes
        self.per_name = {}

    def strings(self, name):
        if name in self.per_name:
            return self.per_name[name]
        out = ['']
        frontier = ['']
        for _ in range(self.maxlen):
            frontier = [s + c for s in frontier for c in self.alphabet]
            out += frontier
        return out

    def describe(self):
        return {'alphabet': self.alphabet, 'max_string_length': self.maxlen, 'ints': list(self.ints),
                'reals': list(self.reals), 'sizes': list(self.sizes),
                'per_name': {k: (v if len(v) < 12 else '%d values' % len(v)) for k, v in self.per_name.items()}}


class EnumSource(Source):
    """Replay-style exhaustive enumeration: every draw is a decision point."""
    def __init__(self, decisions, work, bounds):
        Source.__init__(self)
        self.decisions, self.work, self.bounds = list(decisions), work, bounds
        self.pos = 0

    def _draw(self, name, options):
        options = list(options)
        if self.pos < len(self.decisions):
            k = self.decisions[self.pos]
        else:
            k = 0
            prefix = self.decisions[:self.pos]
            for alt in range(len(options) - 1, 0, -1):
                self.work.append(prefix + [alt])
            self.decisions.append(0)
        self.pos += 1
        v = options[k]
        self.log[self.fresh_name(name)] = v if not isinstance(v, tuple) else v[0]
        return v

    def choice(self, name, options):
        return self._draw(name, options)

    def int(self, name):
        return self._draw(name, self.bounds.per_name.get(name, self.bounds.ints))

    def real(self, name):
        return self._draw(name, self.bounds.per_name.get(name, self.bounds.reals))

    def bool(self, name):
        return self._draw(name, [False, True])

    def str(self, name, kind):
        return conv_str(self._draw(name, self.bounds.strings(name)), kind)

    def size(self, name):
        return self._draw(name, self.bounds.per_name.get(name, self.bounds.sizes))


class RandomSource(Source):
    def __init__(self, rng, bounds):
        Source.__init__(self)
        self.rng, self.bounds = rng, bounds

    def _draw(self, name, options):
        v = self.rng.choice(list(options))
        self.log[self.fresh_name(name)] = v if not isinstance(v, tuple) else v[0]
        return v

    choice = _draw

    def int(self, name):
        return self._draw(name, self.bounds.per_name.get(name, self.bounds.ints))

    def real(self, name):
        return self._draw(name, self.bounds.per_name.get(name, self.bounds.reals))

    def bool(self, name):
        return self._draw(name, [False, True])

    def str(self, name, kind):
        if name in self.bounds.per_name:
            return conv_str(self._draw(name, self.bounds.per_name[name]), kind)
        n = self.rng.randint(0, self.bounds.maxlen)
        s = ''.join(self.rng.choice(self.bounds.alphabet) for _ in range(n))
        self.log[self.fresh_name(name)] = s
        return conv_str(s, kind)

    def size(self, name):
        return self._draw(name, self.bounds.per_name.get(name, self.bounds.sizes))


def conv_str(s, kind):
    if isinstance(s, bytes):
        s = s.decode('latin-1')
    if kind == 'b':
        try:
            return s.encode('latin-1')
        except UnicodeEncodeError:
            raise Unrepresentable('model character above 255 in a bytes value: %r' % s)
    return s


# ---------------------------------------------------------------------------------------------
# real classes
# ---------------------------------------------------------------------------------------------
def real_class(name):
    import pexpect
    if name in ('BytesIO', 'io.BytesIO'):
        return io.BytesIO
    if name in ('StringIO', 'io.StringIO'):
        return io.StringIO
    if name in ('EOF', 'TIMEOUT', 'ExceptionPexpect'):
        return getattr(pexpect, name)
    if name == 'ExceptionPxssh':
        from pexpect import pxssh
        return pxssh.ExceptionPxssh
    import builtins
    if hasattr(builtins, name):
        return getattr(builtins, name)
    if '.' in name:
        mod, _, cls = name.rpartition('.')
        try:
            return getattr(importlib.import_module(mod), cls)
        except (ImportError, AttributeError):
            # nested: module.Class.attr
            m2, _, c2 = mod.rpartition('.')
            return getattr(getattr(importlib.import_module(m2), c2), cls)
    raise KeyError(name)


def resolve_function(qual):
    parts = qual.split('.')
    for i in range(len(parts) - 1, 0, -1):
        try:
            obj = importlib.import_module('.'.join(parts[:i]))
        except ImportError:
            continue
        for p in parts[i:]:
            obj = getattr(obj, p)
        return obj
    raise KeyError(qual)


def class_name(c):
    """Name of a real class in the contracts' vocabulary."""
    n = c.__name__
    if c.__module__.startswith('pexpect.exceptions') or n in ('BytesIO', 'StringIO') or c.__module__ == 'builtins':
        return n
    return c.__module__ + '.' + c.__qualname__


class Stub:
    """An object known only through its interface contract; behaviour is drawn from the source."""
    def __init__(self, name, iface, source, reg, fields):
        self.__dict__['_stub'] = (name, iface, source, reg)
        self.__dict__.update(fields)

    def __getattr__(self, attr):
        name, iface, source, reg = self.__dict__['_stub']
        con = reg.iface_contract(iface, attr)
        if con is None:
            raise AttributeError(attr)

        def method(*args, **kwargs):
            return call_by_contract(con, [self] + list(args), kwargs, source, '%s.%s' % (iface, attr))
        return method

    def __str__(self):
        return '<stub %s>' % self.__dict__['_stub'][0]


def _stub_method(con, obj, source, qual):
    def method(*args, **kwargs):
        return call_by_contract(con, [obj] + list(args), kwargs, source, qual)
    return method


class _BindHelper:
    def const(self, py):
        return py

    def tuple_of(self, items):
        return tuple(items)


def call_by_contract(con, args, kwargs, source, what):
    """Concrete behaviour of an interface/external call: any behaviour the contract allows."""
    bound = con.bind(args, kwargs, _BindHelper())
    g0 = dict(source.ghost)
    old = freeze_args(bound)
    pre = CView(old, LiveNS(bound), source)
    for cid, f in con.requires(pre):
        if not f:
            raise AssertionError('interface precondition %s.%s violated by the real caller' % (what, cid))
    outs = con.outcomes(pre)
    out = source.choice('outcome:' + what, [o.label for o in outs])
    out = [o for o in outs if o.label == out][0]
    short = what.split('.')[-1]
    for (view, field, ty) in con.modifies(pre, out):
        setattr(view._obj, field, draw(source, ty, '%s.%s' % (short, field)))
    result, raised = None, None
    if out.kind == 'ret':
        result = draw(source, out.ty, short + '.ret')
    else:
        raised = out.exc
    post = CView(old, LiveNS(bound), source, result=cview(result), raised=raised, label=out.label, ghost0=g0)
    post.what = short
    con.effects(post)
    for cid, f in con.ensures(post):
        if not f:
            raise OutOfDomain('%s.%s' % (what, cid))
    if raised:
        raise real_class(raised)('stub')
    return result


def draw(source, ty, hint):
    tag = ty.tag
    if tag == 'Int':
        return source.int(hint)
    if tag == 'Real':
        return source.real(hint)
    if tag == 'Bool':
        return source.bool(hint)
    if tag == 'Str':
        return source.str(hint, ty.args[0])
    if tag == 'Any' and ty.args and ty.args[0] == 'nonpattern':
        pool = [7, None, 2.5, ['a'], ('a',), (b'a', 'b'), {'a': 1}]
        if isinstance(source, ModelSource):
            return pool[0]
        return source.choice(hint + '.obj', pool)
    if tag == 'Union':
        alts = ty.args[0]
        labels = [lab for lab, _ in alts]
        base, idx = (hint[:hint.rindex('.')], hint[hint.rindex('['):]) if hint.endswith(']') else (hint, '')
        if isinstance(source, ModelSource):
            k = source.int(base + '.tag' + idx)
            k = k if 0 <= k < len(labels) else 0
        else:
            k = labels.index(source.choice(hint + '.tag', labels))
        lab, t = alts[k]
        return draw(source, t, '%s.%s%s' % (base, lab, idx))
    if tag == 'Any':
        if ty.args and ty.args[0] == 'regex':
            import re
            pool = ['a', 'b', 'ab', 'a*', 'b$', '', '.', 'a|b']
            if ty.args[1] == '?':
                pool = pool + ['\xe9']
            pat = source.choice(hint + '.regex', pool) if not isinstance(source, ModelSource) else \
                pool[abs(hash(str(source.model.get(hint, hint)))) % len(pool)]
            if ty.args[1] == '?':
                # a compiled pattern of either string type with flags of its own (C20)
                if isinstance(source, ModelSource):
                    h = abs(hash(str(source.model.get(hint, hint))))
                    kind, flags = 'bs'[h % 2], [0, re.I, re.M | re.X, re.S, re.A][(h // 2) % 5]
                else:
                    kind = source.choice(hint + '.type', ['b', 's'])
                    flags = source.choice(hint + '.flags', [0, re.I, re.M | re.X, re.S, re.A, re.I | re.S])
                return re.compile(conv_str(pat, kind), flags)
            return re.compile(conv_str(pat, ty.args[1]), re.DOTALL)
        return Opaque(source.fresh_name(hint))
    if tag == 'None':
        return None
    if tag == 'Cls':
        return real_class(ty.args[0])
    if tag == 'Opt':
        if source.bool(hint + '.isnone'):
            return None
        return draw(source, ty.args[0], hint)
    if tag == 'Io':
        kind = ty.args[0]
        o = io.BytesIO() if kind == 'b' else io.StringIO()
        o.write(source.str(hint + '.content', kind))
        return o
    if tag == 'Tuple':
        return tuple(draw(source, t, '%s.%d' % (hint, i)) for i, t in enumerate(ty.args))
    if tag == 'Pat':
        if isinstance(source, ModelSource):
            base, idx = (hint[:hint.rindex('[')], hint[hint.rindex('['):]) if hint.endswith(']') else (hint, '')
            if source.bool(base + '.iseof' + idx):
                return real_class('EOF')
            if source.bool(base + '.isto' + idx):
                return real_class('TIMEOUT')
            return draw(source, ty.args[0], base + '.val' + idx)
        k = source.choice(hint + '.kind', ['text', 'EOF', 'TIMEOUT'])
        if k == 'text':
            return draw(source, ty.args[0], hint + '.val')
        return real_class(k)
    if tag == 'Array':
        from pyvc.spec import ConcArray
        return ConcArray(0)
    if tag == 'SymList':
        comps, scalar = ty.args[0], (ty.args[1] if len(ty.args) > 1 else False)
        n = source.size(hint + '.len')
        out = []
        for i in range(n):
            vals = [draw(source, t, '%s.%s[%d]' % (hint, cn, i)) for cn, t in comps]
            out.append(vals[0] if scalar else tuple(vals))
        return out
    raise Unrepresentable('draw of %r' % (ty,))


# ---------------------------------------------------------------------------------------------
# builder (same API as pyvc.contract.SymBuilder)
# ---------------------------------------------------------------------------------------------
class ConcBuilder:
    def __init__(self, source, reg):
        self.source, self.reg = source, reg
        self.objects = {}

    def choice(self, name, options):
        return self.source.choice(name, options)

    def int(self, name):
        return self.source.int(name)

    def real(self, name):
        return self.source.real(name)

    def bool(self, name):
        return self.source.bool(name)

    def str(self, name, kind):
        return self.source.str(name, kind)

    def any(self, name):
        return Opaque(name)

    def none(self):
        return None

    def cls(self, name):
        return real_class(name)

    def const(self, py):
        return py

    def opt(self, name, mk):
        if self.choice(name + '?', ['none', 'some']) == 'none':
            return None
        return mk()

    def tuple(self, *items):
        return tuple(items)

    def sopt(self, name, mk):
        if self.source.bool(name + '.isnone'):
            return None
        return mk()

    def io(self, name, kind):
        content = self.source.str(name + '.content', kind)
        pos = self.source.int(name + '.pos')
        o = io.BytesIO() if kind == 'b' else io.StringIO()
        o.write(content)
        if pos < 0:
            raise OutOfDomain('negative stream position')
        o.seek(pos)
        self.objects[name] = o
        return o

    def obj(self, _name, _cls, /, sealed=True, **fields):
        if _cls.startswith('iface:'):
            o = Stub(_name, _cls, self.source, self.reg, fields)
        else:
            rc = real_class(_cls)
            if isinstance(rc, type) and issubclass(rc, BaseException):
                o = rc('drawn')
            else:
                o = object.__new__(rc)
            for k, v in fields.items():
                object.__setattr__(o, k, v)
            # methods that the contracts treat through an interface contract are stubbed on this instance
            for qual, cons in self.reg.contracts.items():
                for c in cons:
                    if getattr(c, 'iface', False) and qual.rsplit('.', 1)[0] == _cls:
                        object.__setattr__(o, qual.rsplit('.', 1)[1], _stub_method(c, o, self.source, qual))
        self.objects[_name] = o
        return o

    def list(self, items):
        out = []
        for x in items:
            if isinstance(x, HiddenC):
                out.extend(['7'] * x.n)
            else:
                out.append(x)
        return out

    def hidden(self, name):
        return HiddenC(self.source.size(name))

    def symdict(self, name, arity):
        raise Unrepresentable('symbolic dictionary')

    def symlist(self, name, comps, scalar=False):
        n = self.source.size(name + '.len')
        out = []
        for i in range(n):
            vals = [draw(self.source, ty, '%s.%s[%d]' % (name, cn, i)) for cn, ty in comps]
            out.append(vals[0] if scalar else tuple(vals))
        self.objects[name] = out
        return out

    def func(self, v):
        return v

    def regex(self, name):
        from pyvc.types import T
        return draw(self.source, T('Any', 'regex', '?'), name)

    def union(self, name, alts):
        from pyvc.types import T
        return draw(self.source, T('Union', tuple(alts)), name)

    def grid(self, name, rows, cols):
        if rows < 0 or cols < 0 or rows * cols > 64:
            raise OutOfDomain('grid size')
        w = [[self.source.str('%s[%d][%d]' % (name, i, j), 's') or ' ' for j in range(cols)] for i in range(rows)]
        self.objects[name] = w
        return w

    def ghost(self, name, value):
        self.source.ghost[name] = value
        return value


# ---------------------------------------------------------------------------------------------
# views
# ---------------------------------------------------------------------------------------------
PRIMS = (int, float, str, bytes, bool, type(None))


class IoC:
    def __init__(self, content, pos, cls, ident=None):
        self.content, self.pos, self._cls = content, pos, cls
        self._oid = ident           # identity of the real buffer object (two attributes may share one buffer)


class CGrid:
    """Concrete grid view (0-based).  ids: identity of the row objects at the time of the snapshot."""
    def __init__(self, rows, ids):
        self._rows, self._ids = rows, ids
        self.len = len(rows)

    def cell(self, i, j):
        if 0 <= i < len(self._rows) and 0 <= j < len(self._rows[i]):
            return self._rows[i][j]
        return None             # outside the grid (both arms of a spec-level ite are evaluated)

    def rowid(self, i):
        return self._ids[i] if 0 <= i < len(self._ids) else None

    def rowlen(self, i):
        return len(self._rows[i]) if 0 <= i < len(self._rows) else None


def is_grid(o):
    return isinstance(o, list) and len(o) > 0 and all(isinstance(x, list) for x in o)


class _Missing:
    def __getitem__(self, k):
        return None

    def __repr__(self):
        return '<missing>'


MISSING = _Missing()


class ListC:
    def __init__(self, items):
        self.items = items
        self.len = len(items)

    def last(self, k=1):
        return cview(self.items[-k])

    def get(self, i):
        if not (0 <= i < len(self.items)):
            return MISSING                   # outside the list (both arms of a spec-level ite are evaluated)
        return cview(self.items[i])


def is_structured(o):
    return isinstance(o, Stub) or type(o).__module__.startswith('pexpect')


def cview(o):
    if isinstance(o, PRIMS) or isinstance(o, Opaque):
        return o
    if isinstance(o, type):
        return ClassConst(class_name(o))
    if isinstance(o, io.BytesIO):
        return IoC(o.getvalue(), o.tell(), 'io.BytesIO', id(o))
    if isinstance(o, io.StringIO):
        return IoC(o.getvalue(), o.tell(), 'io.StringIO', id(o))
    if isinstance(o, tuple):
        return tuple(cview(x) for x in o)
    if isinstance(o, CGrid):
        return o
    if is_grid(o):
        return CGrid(o, [id(x) for x in o])
    if isinstance(o, list):
        return ListC(o)
    if isinstance(o, Frozen):
        return FrozenView(o)
    if is_structured(o):
        return ObjC(o)
    return o


class ObjC:
    def __init__(self, obj):
        object.__setattr__(self, '_obj', obj)

    def __getattr__(self, name):
        if name == '_cls':
            return class_name(type(self._obj))
        return cview(getattr(self._obj, name))

    def has(self, name):
        return hasattr(self._obj, name)

    def __eq__(self, other):
        return isinstance(other, ObjC) and other._obj is self._obj

    def __hash__(self):
        return id(self._obj)


class Frozen:
    def __init__(self, obj, fields, cls):
        self.obj, self.fields, self.cls = obj, fields, cls


class FrozenView:
    def __init__(self, fz):
        object.__setattr__(self, '_fz', fz)
        object.__setattr__(self, '_obj', fz.obj)

    def __getattr__(self, name):
        if name == '_cls':
            return self._fz.cls
        if name not in self._fz.fields:
            # class-level attribute or property evaluated on the live object is not old state
            raise AttributeError('old state has no field %s' % name)
        return cview(self._fz.fields[name])

    def has(self, name):
        return name in self._fz.fields


def freeze(o, memo):
    if id(o) in memo:
        return memo[id(o)]
    if isinstance(o, (io.BytesIO, io.StringIO)):
        r = IoC(o.getvalue(), o.tell(), 'io.BytesIO' if isinstance(o, io.BytesIO) else 'io.StringIO', id(o))
        memo[id(o)] = r
        return r
    if is_grid(o):
        return CGrid([list(x) for x in o], [id(x) for x in o])
    if isinstance(o, list):
        r = ListC([freeze(x, memo) for x in o])
        return r
    if isinstance(o, tuple):
        return tuple(freeze(x, memo) for x in o)
    if is_structured(o) and not isinstance(o, type):
        fz = Frozen(o, {}, class_name(type(o)) if not isinstance(o, Stub) else o.__dict__['_stub'][1])
        memo[id(o)] = fz
        for k, v in list(vars(o).items()):
            if k == '_stub':
                continue
            fz.fields[k] = freeze(v, memo)
        return fz
    return o


def freeze_args(args):
    memo = {}
    return {k: freeze(v, memo) for k, v in args.items()}


class LiveNS:
    def __init__(self, d):
        self._d = d

    def __getattr__(self, name):
        if name not in self._d:
            raise AttributeError(name)
        return cview(self._d[name])

    def has(self, name):
        return name in self._d


class FrozenNS:
    def __init__(self, d):
        self._d = d

    def __getattr__(self, name):
        if name not in self._d:
            raise AttributeError(name)
        v = self._d[name]
        return v if isinstance(v, (IoC, ListC, CGrid)) else cview(v)

    def has(self, name):
        return name in self._d


class CView:
    def __init__(self, old_frozen, live, source, result=None, raised=None, label=None, ghost=None, ghost0=None,
                 exc=None):
        self.old = FrozenNS(old_frozen)
        self.a = self.old
        self.new = live
        self.result = result
        self.raised = raised
        self.label = label
        self.source = source
        self.g = source.ghost if ghost is None else ghost
        self.g0 = ghost0 if ghost0 is not None else dict(self.g)
        self.what = ''
        self.exc = exc
        self.trace = []
        self.concrete = True

    def draw(self, ty, hint):
        return cview(draw(self.source, ty, '%s.%s' % (self.what, hint) if self.what else hint))


# ---------------------------------------------------------------------------------------------
# running one concrete case
# ---------------------------------------------------------------------------------------------
def run_case(con, source, reg, clause_filter=None):
    """Build the pre-state from `source`, run the real function, evaluate the contract.
    Returns dict(status='ok'|'fail'|'out-of-domain'|'unrepresentable', failed=[clause ids], ...)"""
    try:
        b = ConcBuilder(source, reg)
        args = con.shape(b)
        old = freeze_args(args)
        g0 = dict(source.ghost)
        pre = CView(old, LiveNS(args), source)
        for cid, f in con.requires(pre):
            if not f:
                return {'status': 'out-of-domain', 'why': 'requires.' + cid}
        fn = resolve_function(con.name)
        undo = con.instrument(args, source.ghost) if hasattr(con, 'instrument') else None
        result, raised, exc = None, None, None
        try:
            try:
                result = fn(**args)
            finally:
                if callable(undo):
                    undo()
        except OutOfDomain as e:
            return {'status': 'out-of-domain', 'why': str(e)}
        except BaseException as e:       # the contract decides whether this exit is allowed
            if isinstance(e, (KeyboardInterrupt, SystemExit)):
                raise
            raised = type(e).__name__
            exc = e
        post = CView(old, LiveNS(args), source, result=cview(result), raised=raised, exc=exc, ghost0=g0)
        failed = []
        if raised is not None and con.exits is not None and raised not in con.exits(post):
            failed.append('raises-only-declared')
        for cid, f in con.ensures(post):
            if clause_filter and not clause_filter(cid):
                continue
            if not f:
                failed.append(cid)
        return {'status': 'fail' if failed else 'ok', 'failed': failed, 'raised': raised,
                'exc': repr(exc) if exc is not None else None,
                'result': repr(result)[:200], 'inputs': describe_inputs(source, args)}
    except Unrepresentable as e:
        return {'status': 'unrepresentable', 'why': str(e)}
    except OutOfDomain as e:
        return {'status': 'out-of-domain', 'why': str(e)}


def describe_inputs(source, args):
    d = {}
    if isinstance(source, ModelSource):
        d.update({k: repr(v) for k, v in source.model.items() if not str(v).startswith('Val!')})
        d.update({'case': source.case})
    else:
        d.update({k: repr(v) for k, v in source.log.items()})
    return d


def enumerate_cases(con, reg, bounds, limit=200000, clause_filter=None, stop_on_fail=True, rng=None, samples=0):
    """Exhaustive DFS over all draws (or `samples` random cases when rng is given)."""
    stats = {'evaluations': 0, 'in_domain': 0, 'failures': [], 'out_of_domain': 0, 'exhaustive': False,
             'distinct': 0, 'examples': []}
    seen = set()
    if rng is not None:
        for _ in range(samples):
            src = RandomSource(rng, bounds)
            r = run_case(con, src, reg, clause_filter)
            _account(stats, r, src, seen)
            if r['status'] == 'fail' and stop_on_fail:
                break
        return stats
    work = [[]]
    while work and stats['evaluations'] < limit:
        dec = work.pop()
        src = EnumSource(dec, work, bounds)
        r = run_case(con, src, reg, clause_filter)
        _account(stats, r, src, seen)
        if r['status'] == 'fail' and stop_on_fail:
            return stats
    stats['exhaustive'] = not work
    return stats


def _account(stats, r, src, seen):
    stats['evaluations'] += 1
    if r['status'] in ('ok', 'fail'):
        stats['in_domain'] += 1
        key = json.dumps(r.get('inputs'), sort_keys=True, default=str)
        if key not in seen:
            seen.add(key)
            stats['distinct'] += 1
        if len(stats['examples']) < 3:
            stats['examples'].append({'inputs': r['inputs'], 'result': r['result'], 'raised': r['raised']})
        if r['status'] == 'fail':
            stats['failures'].append(r)
    else:
        stats['out_of_domain'] += 1
