"""CLI of the concrete harness: JSON request on stdin, JSON answer on stdout.
  {"mode": "replay", "contract": q, "receiver": r, "case": {...}, "model": {...}, "extra": {...}, "tags": [...], "clauses": [...]}
  {"mode": "enum", "contract": q, "receiver": r, "bounds": {...}, "limit": n, "seed": s, "random": k, "clauses": [...]}
"""
import sys, json, random, os
sys.path.insert(0, os.path.dirname(os.path.dirname(os.path.abspath(__file__))))
from harness import concrete as C
from contracts import build_registry


def main():
    req = json.load(sys.stdin)
    reg = build_registry()
    con = reg.contract_for(req['contract'], req.get('receiver'))
    clauses = req.get('clauses')
    filt = (lambda cid: cid in clauses) if clauses else None
    if req['mode'] == 'replay':
        src = C.ModelSource(req.get('case', {}), req.get('model', {}), req.get('extra', {}), req.get('tags', []))
        out = C.run_case(con, src, reg, filt)
    else:
        bd = req.get('bounds', {})
        b = C.Bounds(alphabet=bd.get('alphabet', 'ab'), maxlen=bd.get('maxlen', 3), ints=tuple(bd.get('ints', (-1, 0, 1, 2, 3))),
                     reals=tuple(bd.get('reals', (0.0, 0.5))), sizes=tuple(bd.get('sizes', (0, 1, 2))))
        b.per_name = bd.get('per_name', {})
        out = None
        if req.get('random'):
            rng = random.Random(req.get('seed', 0))
            out = C.enumerate_cases(con, reg, b, clause_filter=filt, rng=rng, samples=req.get('random', 0))
        if out is None or not out['failures']:
            out2 = C.enumerate_cases(con, reg, b, limit=req.get('limit', 100000), clause_filter=filt)
            if out is not None:
                for k in ('evaluations', 'in_domain', 'out_of_domain', 'distinct'):
                    out2[k] += out[k]
            out = out2
        out['bounds'] = b.describe()
    json.dump(out, sys.stdout, default=str)


if __name__ == '__main__':
    main()
