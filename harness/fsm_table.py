"""Mechanical extraction of the ANSI transition table: runs the real ANSI.__init__ and dumps the tables it
built (data, not code).  Output: JSON on stdout."""
import os, sys, json, warnings
warnings.simplefilter('ignore')
_repo = os.environ.get('VERIF_REPO')
if _repo:
    sys.path.insert(0, _repo)
from pexpect import ANSI


def name(a):
    if a is None:
        return None
    return getattr(a, '__name__', repr(a))


t = ANSI.ANSI(3, 4)
f = t.state
out = {
    'initial': f.initial_state,
    'exact': [[sym, st, name(a), nx] for (sym, st), (a, nx) in sorted(f.state_transitions.items())],
    'any': {st: [name(a), nx] for st, (a, nx) in f.state_transitions_any.items()},
    'default': [name(f.default_transition[0]), f.default_transition[1]] if f.default_transition else None,
    'memory_len': len(f.memory), 'memory0_is_self': f.memory[0] is t,
}
json.dump(out, sys.stdout)
