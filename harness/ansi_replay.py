"""Feed a string (given in pieces) to the real ANSI terminal; report exceptions, grid shape, residue."""
import os, sys, json, warnings
warnings.simplefilter('ignore')
_repo = os.environ.get('VERIF_REPO')
if _repo:
    sys.path.insert(0, _repo)
from pexpect import ANSI
req = json.load(sys.stdin)
t = ANSI.ANSI(req.get('rows', 3), req.get('cols', 4))
out = {'raised': None}
cwd = os.getcwd()
import tempfile
d = tempfile.mkdtemp()
os.chdir(d)                      # DoLog appends to ./log
try:
    for piece in req['pieces']:
        t.write(piece)
except BaseException as e:
    out['raised'] = '%s: %s' % (type(e).__name__, str(e)[:200])
finally:
    os.chdir(cwd)
    import shutil
    shutil.rmtree(d, ignore_errors=True)
out.update(state=t.state.current_state, memory_len=len(t.state.memory), rows=len(t.w),
           row_lengths=sorted({len(r) for r in t.w}), cursor=[t.cur_r, t.cur_c], screen=str(t))
json.dump(out, sys.stdout)
