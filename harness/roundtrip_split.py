"""Bounded stand-in (labelled bounded, never counted as proved) for the round-trip law of C13:
quote every argument of a list of non-empty arguments in one of three styles, join with whitespace (with or
without leading / trailing whitespace), split with the REAL split_command_line: the argument list comes back."""
import os, sys, json, itertools
_repo = os.environ.get('VERIF_REPO')
if _repo:
    sys.path.insert(0, _repo)
from pexpect.utils import split_command_line

req = json.load(sys.stdin)
alphabet = req.get('alphabet', ['a', ' ', '\t', "'", '"', '\\', 'é'])
maxlen = req.get('maxlen', 2)
maxargs = req.get('maxargs', 2)


def q_backslash(a):
    return ''.join('\\' + c for c in a)


def q_single(a):
    return "'" + a + "'" if "'" not in a else None


def q_double(a):
    return '"' + a + '"' if '"' not in a else None


styles = [q_backslash, q_single, q_double]
words = [''.join(p) for n in range(1, maxlen + 1) for p in itertools.product(alphabet, repeat=n)]
evals = 0
fail = None
for n in range(1, maxargs + 1):
    for args in itertools.product(words, repeat=n):
        for st in itertools.product(styles, repeat=n):
            quoted = [f(a) for f, a in zip(st, args)]
            if any(x is None for x in quoted):
                continue
            for lead, sep, trail in (('', ' ', ''), (' ', ' \t', ''), ('', '\t', ' '), ('\t ', '  ', '\t')):
                line = lead + sep.join(quoted) + trail
                evals += 1
                got = split_command_line(line)
                if got != list(args):
                    fail = {'line': line, 'expected': list(args), 'got': got}
                    break
            if fail:
                break
        if fail:
            break
    if fail:
        break
json.dump({'evaluations': evals, 'failure': fail, 'bounds': {'alphabet': alphabet, 'max_argument_length': maxlen,
                                                              'max_arguments': maxargs}}, sys.stdout)
