#!/usr/bin/env python3
"""Regenerate /verif/MANIFEST.json from contracts/props.py (claimed properties) and properties.jsonl."""
import json, os, sys
HERE = os.path.dirname(os.path.dirname(os.path.abspath(__file__)))
sys.path.insert(0, HERE)
from contracts.props import PROPS, NOT_APPLICABLE, LEVEL_TEXT

props = [json.loads(l) for l in open(os.path.join(HERE, 'properties.jsonl'))]
checks = []
for p in props:
    pid = p['id']
    if pid not in PROPS or PROPS[pid].get('claimed', True) is False:
        continue
    P = PROPS[pid]
    checks.append({
        'property_id': pid,
        'quick_cmd': 'python3-vt check.py %s --tier quick' % pid,
        'thorough_cmd': 'python3-vt check.py %s --tier thorough' % pid,
        'evidence_file': 'evidence/%s.json' % pid,
        'replay_cmd_template': 'python3-vt check.py %s --replay {path}' % pid,
        'engine': 'pyvc',
        'level_claimed': {'category': 'proof', 'text': LEVEL_TEXT.get(pid, LEVEL_TEXT['*']) , 'design_ref': 'DESIGN.md section 6 (%s)' % pid},
        'level_note': ' ; '.join(P.get('assumptions', [])) or 'see DESIGN.md section 4',
        'technique': 'contract-based deductive verification: sidecar contracts on the real functions, VCs generated from the current AST, discharged by z3/cvc5; counter-models replayed on the real code' + ((' ; ' + P['technique_note']) if P.get('technique_note') else ''),
    })
m = {
    'version': 1,
    'setup_cmd': 'mkdir -p evidence replays',
    'hooks': {'guard': 'PEXPECT_VERIF', 'enable': 'no hooks: contracts are sidecar files under /verif/contracts keyed by qualified function name and loop ordinal; /repo is parsed on every run and, for replays, imported unmodified',
              'baseline_off_cmd': 'cd /repo && /venv/bin/python -m pytest -ra -q -p no:cacheprovider --timeout=900 --continue-on-collection-errors',
              'source_commits': [], 'add_only': True},
    'engines': [{'name': 'pyvc', 'path': 'pyvc/', 'serves_properties': [c['property_id'] for c in checks],
                 'kind_free_text': 'verification-condition generator for a Python subset (symbolic execution of the real AST, per-path VCs, loop invariants, quantifier instantiation by E-matching on array reads) + z3 5.1 / cvc5 1.0.3 / z3 4.8.12 portfolio + concrete replay harness running the same contracts on the real code'}],
    'checks': checks,
    'notes': 'Contract-based deductive verification of the real code; see DESIGN.md. Genuine defects found are fixed in /repo by "fix:" commits and recorded in known_findings.json.',
    'not_applicable': [{'property_id': p['id'], 'reason': NOT_APPLICABLE.get(p['id'], 'not built yet: contracts for the functions this property depends on are not finished (DESIGN.md section 9); no weaker technique is substituted')}
                       for p in props if p['id'] not in [c['property_id'] for c in checks]],
}
json.dump(m, open(os.path.join(HERE, 'MANIFEST.json'), 'w'), indent=1)
print('claimed:', [c['property_id'] for c in checks])
