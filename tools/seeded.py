#!/usr/bin/env python3
"""Confirm a seeded change in a scratch worktree and run the property's check against it.
  tools/seeded.py /tmp/seeded_C19_1 [--tests "tests/test_screen.py tests/test_ansi.py"] [--keep]
Confirms: demo passes on the clean tree, fails with the patch; optional tests pass with the patch.
Then: git -C /repo apply; check.py <prop>; git -C /repo checkout -- .   (the /repo tree is restored in a finally)."""
import sys, os, json, subprocess, shutil, argparse
ap = argparse.ArgumentParser()
ap.add_argument('dir')
ap.add_argument('--tests', default='')
ap.add_argument('--props', default='')
ap.add_argument('--keep', action='store_true')
a = ap.parse_args()
d = a.dir.rstrip('/')
meta = json.load(open(os.path.join(d, 'meta.json')))
prop = meta.get('property', os.path.basename(d).split('_')[1])
props = a.props.split(',') if a.props else [prop]
wt = '/tmp/wt_confirm'
subprocess.run(['git', '-C', '/repo', 'worktree', 'remove', '--force', wt], capture_output=True)
subprocess.run(['git', '-C', '/repo', 'worktree', 'add', '-q', '--detach', wt, 'HEAD'], check=True)
res = {'dir': d, 'property': prop}
try:
    env = dict(os.environ, PYTHONPATH=wt)
    r0 = subprocess.run(['/venv/bin/python', '-W', 'ignore', os.path.join(d, 'demo.py')], cwd=wt, env=env, capture_output=True, text=True, timeout=300)
    res['demo_clean'] = r0.returncode
    ap_ = subprocess.run(['git', '-C', wt, 'apply', os.path.join(d, 'patch.diff')], capture_output=True, text=True)
    res['applies'] = ap_.returncode == 0
    r1 = subprocess.run(['/venv/bin/python', '-W', 'ignore', os.path.join(d, 'demo.py')], cwd=wt, env=env, capture_output=True, text=True, timeout=300)
    res['demo_patched'] = r1.returncode
    if a.tests:
        t = subprocess.run(['/venv/bin/python', '-m', 'pytest', '-q', '-x', '-p', 'no:cacheprovider'] + a.tests.split(), cwd=wt, env=env,
                           capture_output=True, text=True, timeout=1500)
        res['tests'] = t.stdout.strip().splitlines()[-1] if t.stdout.strip() else t.stderr[-200:]
        res['tests_rc'] = t.returncode
finally:
    subprocess.run(['git', '-C', '/repo', 'worktree', 'remove', '--force', wt], capture_output=True)
res['confirmed'] = res.get('demo_clean') == 0 and res.get('demo_patched', 0) != 0 and res.get('applies') and res.get('tests_rc', 0) == 0
# run the checks against /repo with the patch applied
if res['confirmed']:
    st = subprocess.run(['git', '-C', '/repo', 'status', '--porcelain'], capture_output=True, text=True).stdout.strip()
    assert not st, '/repo not clean: ' + st
    subprocess.run(['git', '-C', '/repo', 'apply', os.path.join(d, 'patch.diff')], check=True)
    try:
        res['checks'] = {}
        for p in props:
            env = dict(os.environ, VERIF_EVIDENCE_DIR='/tmp/seeded_evidence')
            c = subprocess.run(['python3-vt', '/verif/check.py', p], cwd='/verif', env=env, capture_output=True, text=True, timeout=3000)
            lines = [l for l in c.stdout.splitlines() if l.startswith(('VIOLATION', 'KNOWN', 'C', 'NOTE', '  obligation', '  unsupported'))]
            res['checks'][p] = {'exit': c.returncode, 'lines': lines[:8]}
    finally:
        subprocess.run(['git', '-C', '/repo', 'checkout', '--', '.'], check=True)
print(json.dumps(res, indent=1))
if a.keep and res['confirmed']:
    dst = os.path.join('/verif/seeded', os.path.basename(d).replace('seeded_', ''))
    os.makedirs(dst, exist_ok=True)
    for f in ('patch.diff', 'demo.py'):
        shutil.copy(os.path.join(d, f), dst)
    meta['confirmed_by_main'] = {k: res[k] for k in ('demo_clean', 'demo_patched', 'tests', 'tests_rc') if k in res}
    meta['check_results'] = res.get('checks')
    json.dump(meta, open(os.path.join(dst, 'meta.json'), 'w'), indent=1)
