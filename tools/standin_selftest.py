#!/usr/bin/env python3
"""Development tool: run the bounded stand-in of every contract of a property on the UNCHANGED tree.
A failure here is a harness artifact (or a genuine defect) and must be resolved before the stand-in may be used."""
import sys, json, subprocess, os
sys.path.insert(0, '/verif')
from contracts.props import PROPS
from contracts import build_registry
reg = build_registry()
for prop in sys.argv[1:]:
    P = PROPS[prop]
    for c in P['contracts']:
        recv = None
        if isinstance(c, tuple):
            c, recv = c
        con = reg.contract_for(c, recv)
        if getattr(con, 'standin', True) is False:
            print(prop, c.split('.')[-1], 'stand-in disabled'); continue
        bd = P.get('bounds', {}).get(c, P.get('bounds', {}).get('*', {}))
        req = {'mode': 'enum', 'contract': c, 'receiver': recv, 'bounds': bd, 'limit': 20000, 'random': 30000, 'seed': 1}
        p = subprocess.run(['/venv/bin/python', '-W', 'ignore', '/verif/harness/run_concrete.py'], input=json.dumps(req),
                           capture_output=True, text=True, env=dict(os.environ, PYTHONPATH='/repo'))
        try:
            r = json.loads(p.stdout)
            f = r.get('failures') or []
            print(prop, c.split('.')[-1], 'evals', r.get('evaluations'), 'in-domain', r.get('in_domain'),
                  'FAIL ' + json.dumps(f[0])[:300] if f else 'ok')
        except ValueError:
            print(prop, c.split('.')[-1], 'HARNESS ERROR', p.stderr[-300:].replace('\n', ' | '))
