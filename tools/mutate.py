#!/usr/bin/env python3
"""Development tool (not a registered check): apply a textual edit to a scratch copy of /repo/pexpect and
run a check against it.   tools/mutate.py FILE 'old' 'new' -- C01 [--tier quick]"""
import sys, os, shutil, subprocess, tempfile
i = sys.argv.index('--')
f, old, new = sys.argv[1:i]
rest = sys.argv[i + 1:]
d = tempfile.mkdtemp(prefix='mut', dir='/var/tmp')
try:
    shutil.copytree('/repo/pexpect', os.path.join(d, 'pexpect'))
    p = os.path.join(d, 'pexpect', f)
    s = open(p).read()
    if old not in s:
        print('PATTERN NOT FOUND'); sys.exit(2)
    open(p, 'w').write(s.replace(old, new, 1))
    env = dict(os.environ, VERIF_REPO=d, VERIF_EVIDENCE_DIR=os.path.join(d, 'evidence'))
    r = subprocess.run(['python3-vt', '/verif/check.py'] + rest, env=env, cwd='/verif')
    print('exit', r.returncode)
finally:
    shutil.rmtree(d)
