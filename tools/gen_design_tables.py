#!/usr/bin/env python3
"""Development tool: refresh the generated tables of DESIGN.md section 12 (between the BEGIN/END markers) from
evidence/*.json, known_findings.json and seeded/*/meta.json."""
import json, glob, os, re, sys
HERE = os.path.dirname(os.path.dirname(os.path.abspath(__file__)))


def results_table():
    rows = ['| id | functions under contract | obligations (all discharged) | back ends | solver s | wall s (quick, 16 cores) | open known findings |',
            '|---|---|---|---|---|---|---|']
    for f in sorted(glob.glob(os.path.join(HERE, 'evidence', 'C*.json'))):
        e = json.load(open(f))
        c = e['coverage']
        be = ', '.join('%s %d' % (k, v) for k, v in sorted(c.get('by_backend', {}).items(), key=lambda kv: -kv[1]))
        rows.append('| %s | %d | %d / %d | %s | %s | %s | %s |' % (
            e['property_id'], len(c.get('functions_under_contract', {})), c['discharged'], c['obligations'], be,
            c.get('solver_seconds'), e.get('wall_s'), len(c.get('known_findings_reported', [])) or ''))
    return '\n'.join(rows)


def findings_tables():
    k = json.load(open(os.path.join(HERE, 'known_findings.json')))['findings']
    fx = ['| property | commit | what failed (replayed on the unchanged tree before the repair) |', '|---|---|---|']
    op = ['| id | property | what fails | why it is recorded, not repaired |', '|---|---|---|---|']
    for f in k:
        if f['status'] == 'fixed':
            fx.append('| %s | %s | %s |' % (f['property'], f.get('commit', ''), f['what'].replace('|', '\\|')))
        else:
            op.append('| %s | %s | %s | %s |' % (f['id'], f['property'], f['what'].replace('|', '\\|'), f.get('why_not_fixed', '').replace('|', '\\|')))
    return '\n'.join(fx), '\n'.join(op)


def seeds_table():
    rows = ['| seed | files | what the change breaks | result of the property check with the change applied |', '|---|---|---|---|']
    for d in sorted(glob.glob(os.path.join(HERE, 'seeded', 'C*'))):
        m = json.load(open(os.path.join(d, 'meta.json')))
        res = []
        for p, c in (m.get('check_results') or {}).items():
            v = [l for l in c.get('lines', []) if l.startswith('VIOLATION')]
            kind = ''
            for l in c.get('lines', []):
                mm = re.search(r'fails \(([^)]+)\)', l)
                if mm:
                    kind = mm.group(1)
                    break
            ob = v[0].split('replay=')[1].split('/')[-1].replace('.json', '').split(' ')[0] if v else ''
            res.append('%s exit %s%s' % (p, c.get('exit'), (': ' + ob + (' (' + kind + ')' if kind else '')) if ob else ''))
        what = m.get('what_it_breaks', '').replace('|', '\\|').replace('\n', ' ')
        if len(what) > 260:
            what = what[:257] + '...'
        rows.append('| %s | %s | %s | %s |' % (os.path.basename(d), ', '.join(x.replace('pexpect/', '') for x in m.get('files_changed', [])), what, '; '.join(res)))
    return '\n'.join(rows)


def main():
    p = os.path.join(HERE, 'DESIGN.md')
    s = open(p).read()
    fx, op = findings_tables()
    for name, text in (('results', results_table()), ('fixed', fx), ('open', op), ('seeds', seeds_table())):
        a, b = '<!-- BEGIN:%s -->' % name, '<!-- END:%s -->' % name
        if a not in s:
            print('marker missing:', name)
            continue
        s = s[:s.index(a) + len(a)] + '\n' + text + '\n' + s[s.index(b):]
    open(p, 'w').write(s)
    print('tables refreshed')


if __name__ == '__main__':
    main()
