"""Contracts for the send / log / read paths of the four transports (C07, C08, C11).

Ghost state (effect traces as accumulators, DESIGN.md 5.3):
  sent, nwrites          bytes written to the peer, in order, and the number of write calls
  log:<field>            text written to spawn.<field> (logfile / logfile_read / logfile_send), in order
  unflushed:<field>      a write to that file has not been followed by a flush yet
  rawin                  bytes obtained from the peer by this object
  dec_in, dec_out, ndec  bytes handed to the instance decoder / text it produced / number of decode calls
"""
from pyvc.types import *
from pyvc.cbase import Contract, LoopSpec, Ret, Raises
from pyvc.spec import *
from .common import *

PTY = 'pexpect.pty_spawn.spawn'
FD = 'pexpect.fdpexpect.fdspawn'
POPEN = 'pexpect.popen_spawn.PopenSpawn'
SOCK = 'pexpect.socket_pexpect.SocketSpawn'
TRANSPORTS = (PTY, FD, POPEN, SOCK)
LOGS = ('logfile', 'logfile_read', 'logfile_send')


def _uf(name, *sorts):
    import z3
    m = {'s': z3.StringSort(), 'b': z3.BoolSort(), 'i': z3.IntSort()}
    return z3.Function(name, *[m[x] for x in sorts])


def const_str(x):
    if is_sym(x):
        import z3
        return z3.simplify(x).as_string()
    return x.decode('latin-1') if isinstance(x, bytes) else x


def encode_utf8(s):
    """text given to a bytes-mode object is sent as UTF-8"""
    return _uf('encode_utf8', 's', 's')(s) if is_sym(s) else s.encode('utf-8')


def encode_text(s):
    """what the instance's incremental encoder produces for the text s (assumed a function of the text)"""
    return _uf('EncodeText', 's', 's')(s) if is_sym(s) else s


# ---- assumed contracts of the pieces the transports are built from --------------------------------------
class FileWrite(Contract):
    """logfile.write(s): the log gets the same string type the API uses (C11)"""
    params = ['self', 's']

    def requires(self, v):
        return [('string-type-of-the-api', v.a.self._kind == v.a._skind)]

    def bind(self, args, kwargs, interp):
        b = Contract.bind(self, args, kwargs, interp)
        from pyvc.values import VStr
        k = b['s'].kind if isinstance(b['s'], VStr) else 'other'
        b['_skind'] = interp.const(k)
        return b

    def effects(self, v):
        name = const_str(v.old.self._name)
        v.g['log:' + name] = cat(v.g['log:' + name], v.old.s)
        v.g['unflushed:' + name] = True


class FileFlush(Contract):
    params = ['self']

    def effects(self, v):
        v.g['unflushed:' + const_str(v.old.self._name)] = False


class OsWrite(Contract):
    """os.write(fd, b) on a blocking descriptor writes all of b (assumed) and returns its length"""
    params = ['fd', 'b']

    def outcomes(self, v):
        return [Ret(T.Int)]

    def effects(self, v):
        v.g['sent'] = cat(v.g['sent'], v.old.b)
        v.g['nwrites'] = v.g['nwrites'] + 1
        v.g['sent_fd'] = v.old.fd

    def ensures(self, v):
        return [('writes-all', eq(v.result, length(v.old.b)))]


class PipeWrite(OsWrite):
    params = ['self', 'b']

    def effects(self, v):
        v.g['sent'] = cat(v.g['sent'], v.old.b)
        v.g['nwrites'] = v.g['nwrites'] + 1


class SockSendall(PipeWrite):
    def outcomes(self, v):
        return [Ret(T.NoneT)]

    def ensures(self, v):
        return []


class SockSendPartial(Contract):
    """socket.send(b) may send only a prefix of b and returns how much it sent"""
    params = ['self', 'b']

    def outcomes(self, v):
        return [Ret(T.Int)]

    def effects(self, v):
        v.g['sent'] = cat(v.g['sent'], sub(v.old.b, 0, v.result))
        v.g['nwrites'] = v.g['nwrites'] + 1

    def ensures(self, v):
        return [('partial', And(0 <= v.result, v.result <= length(v.old.b)))]


class EncoderEncode(Contract):
    params = ['self', 's', 'final']
    defaults = {'final': False}

    def requires(self, v):
        return [('incremental', v.a.final is False or eq(v.a.final, False) is True)]

    def outcomes(self, v):
        return [Ret(T.Bytes)]

    def ensures(self, v):
        return [('encoded', eq(v.result, encode_text(v.old.s)))]


class DecoderDecode(Contract):
    """the instance's incremental decoder: called with final=False, chunk by chunk (C07)"""
    params = ['self', 'b', 'final']
    defaults = {'final': False}

    def requires(self, v):
        return [('never-final', eq(v.a.final, False) is True)]

    def outcomes(self, v):
        return [Ret(T.Text)]

    def effects(self, v):
        v.g['dec_in'] = cat(v.g['dec_in'], v.old.b)
        v.g['dec_out'] = cat(v.g['dec_out'], v.result)
        v.g['ndec'] = v.g['ndec'] + 1

    def ensures(self, v):
        return [('no-longer-than-input', length(v.result) <= length(v.old.b))]


class PtySendControl(Contract):
    """ptyprocess.sendcontrol / sendeof / sendintr: exactly one control byte is written to the child"""
    params = ['self', 'char']
    defaults = {'char': None}

    def outcomes(self, v):
        return [Ret(T('Tuple', T.Int, T.Bytes))]

    def effects(self, v):
        byte = v.result[1]
        v.g['sent'] = cat(v.g['sent'], byte)
        v.g['nwrites'] = v.g['nwrites'] + 1

    def ensures(self, v):
        return [('one-byte', And(eq(length(v.result[1]), 1), eq(v.result[0], 1)))]


# ---- shapes ---------------------------------------------------------------------------------------------
def log_file(b, field, kind):
    return b.opt(field, lambda: b.obj(field, 'iface:file', sealed=True, _name=b.const(field), _kind=b.const(kind)))


def init_ghost(b, kind):
    e = b'' if (kind == 'b' and hasattr(b, 'source')) else ''
    eb = b'' if hasattr(b, 'source') else ''
    b.ghost('sent', eb)
    b.ghost('nwrites', 0)
    b.ghost('sent_fd', None)
    for f in LOGS:
        b.ghost('log:' + f, e)
        b.ghost('unflushed:' + f, False)
    b.ghost('rawin', eb)
    b.ghost('dec_in', eb)
    b.ghost('dec_out', e)
    b.ghost('ndec', 0)
    b.ghost('clk', b.real('clk0'))


def transport_shape(b, cls, logs=LOGS):
    kind = b.choice('mode', ['b', 's'])
    f = dict(
        encoding=b.none() if kind == 'b' else b.const('utf-8'),
        codec_errors=b.const('strict'),
        string_type=b.cls('bytes' if kind == 'b' else 'str'),
        linesep=b.const(b'\n' if kind == 'b' else '\n'),
        child_fd=b.int('child_fd'),
        delaybeforesend=b.opt('delaybeforesend', lambda: b.real('delaybeforesend')),
    )
    for lf in LOGS:
        f[lf] = log_file(b, lf, kind) if lf in logs else b.none()
    if kind == 'b':
        coder = b.obj('nullcoder', 'pexpect.spawnbase._NullCoder', sealed=True)
        f['_encoder'] = f['_decoder'] = coder
    else:
        f['_encoder'] = b.obj('encoder', 'iface:encoder', sealed=True)
        f['_decoder'] = b.obj('decoder', 'iface:decoder', sealed=True)
    if cls == PTY:
        f['ptyproc'] = b.obj('ptyproc', 'iface:ptyproc', sealed=False)
    if cls == POPEN:
        f['proc'] = b.obj('proc', 'iface:popen', sealed=False, stdin=b.obj('stdin', 'iface:pipe', closed=True))
    if cls == SOCK:
        f['socket'] = b.obj('socket', 'iface:socket', sealed=False)
    init_ghost(b, kind)
    return b.obj('self', cls, sealed=False, **f), kind


def send_arg(b, kind, name='s'):
    """what the send family accepts: the instance's string type, or text given to a bytes-mode object"""
    if kind == 'b' and b.choice(name + '-type', ['bytes', 'text']) == 'text':
        return b.str(name, 's')
    return b.str(name, kind)


def coerce(sp, s, s_is_text):
    """_coerce_send_string: text given in bytes mode becomes UTF-8, everything else is sent as it is"""
    if sp.encoding is None and s_is_text:
        return encode_utf8(s)
    return s


def payload(sp, text):
    """the bytes the peer receives for an (already coerced) string"""
    return text if sp.encoding is None else encode_text(text)


def is_text_arg(v, name='s'):
    """is the argument a text (str) value?  (concrete per path / per concrete run)"""
    if getattr(v, 'concrete', False):
        return isinstance(getattr(v.old, name), str)
    from pyvc.values import VStr
    a = v.args_v.get(name)
    return isinstance(a, VStr) and a.kind == 's'


def spawn_requires(v):
    d = v.a.self.delaybeforesend
    return [('delay-nonneg', True if d is None else d >= 0)]


def logs_post(v, sp, direction, text):
    """C11: the session log and the direction log receive exactly `text`, once, and are flushed; the
    other direction's log is untouched."""
    out = []
    second = 'logfile_send' if direction == 'send' else 'logfile_read'
    other = 'logfile_read' if direction == 'send' else 'logfile_send'
    for f in ('logfile', second):
        if getattr(sp, f) is not None:
            out.append(('C11:%s-gets-exactly-the-text' % f, eq(v.g['log:' + f], cat(v.g0['log:' + f], text))))
            out.append(('C11:%s-flushed' % f, Not(v.g['unflushed:' + f])))
        else:
            out.append(('C11:%s-absent-untouched' % f, eq(v.g['log:' + f], v.g0['log:' + f])))
    out.append(('C11:%s-untouched' % other, eq(v.g['log:' + other], v.g0['log:' + other])))
    return out


class LogContract(Contract):
    name = SPAWNBASE + '._log'
    props = ('C11',)
    standin = False

    def shape(self, b):
        sp, kind = transport_shape(b, SPAWNBASE)
        return dict(self=sp, s=b.str('s', kind), direction=b.const(b.choice('direction', ['send', 'read'])))

    def requires(self, v):
        from pyvc.values import VStr
        k = 'b' if v.a.self.encoding is None else 's'
        if getattr(v, 'concrete', False):
            ok = isinstance(v.a.s, bytes if k == 'b' else str)
        else:
            a = v.args_v.get('s')
            ok = isinstance(a, VStr) and a.kind == k
        return [('string-type-of-the-api', ok)]

    def exits(self, v):
        return ()

    def effects(self, v):
        d = const_str(v.old.direction)
        second = 'logfile_send' if d == 'send' else 'logfile_read'
        for f in ('logfile', second):
            if getattr(v.old.self, f) is not None:
                v.g['log:' + f] = cat(v.g['log:' + f], v.old.s)
                v.g['unflushed:' + f] = False

    def ensures(self, v):
        return logs_post(v, v.old.self, const_str(v.old.direction), v.old.s)


def send_post(v, sp, text_coerced, n_expected_writes=1, returns_len=True):
    pl = payload(sp, text_coerced)
    out = [('C08:peer-receives-exactly-the-payload', eq(v.g['sent'], cat(v.g0['sent'], pl))),
           ('C08:one-write', eq(v.g['nwrites'], v.g0['nwrites'] + n_expected_writes))]
    if returns_len:
        out.append(('C08:returns-bytes-written', eq(v.result, length(pl)) if v.result is not None else False))
    return out


def make_send(cls, channel_fd=True):
    class Send(Contract):
        name = cls + '.send'
        props = ('C08', 'C11')
        standin = False

        def shape(self, b):
            sp, kind = transport_shape(b, cls, logs=('logfile', 'logfile_send'))
            return dict(self=sp, s=send_arg(b, kind))

        def requires(self, v):
            return spawn_requires(v)

        def outcomes(self, v):
            return [Ret(T.Int)]

        def exits(self, v):
            return ()

        def effects(self, v):
            sp = v.old.self
            t = coerce(sp, v.old.s, is_text_arg(v))
            v.g['sent'] = cat(v.g['sent'], payload(sp, t))
            v.g['nwrites'] = v.g['nwrites'] + 1
            for f in ('logfile', 'logfile_send'):
                if getattr(sp, f) is not None:
                    v.g['log:' + f] = cat(v.g['log:' + f], t)
            d = sp.delaybeforesend
            if cls == PTY and d is not None:
                v.g['clk'] = v.g['clk'] + d

        def ensures(self, v):
            sp = v.old.self
            t = coerce(sp, v.old.s, is_text_arg(v))
            out = send_post(v, sp, t) + logs_post(v, sp, 'send', t)
            if channel_fd and not getattr(v, 'concrete', False) and getattr(v, 'label', None) is None:
                out.append(('C08:written-to-the-child-descriptor', eq(v.g['sent_fd'], sp.child_fd)))
            return out
    Send.__name__ = 'Send_' + cls.split('.')[-1]
    return Send


def make_sendline(cls, two_sends=False):
    class Sendline(Contract):
        name = cls + '.sendline'
        props = ('C08', 'C11')
        standin = False

        def shape(self, b):
            sp, kind = transport_shape(b, cls, logs=('logfile', 'logfile_send'))
            return dict(self=sp, s=send_arg(b, kind))

        def requires(self, v):
            return spawn_requires(v)

        def outcomes(self, v):
            return [Ret(T.Int)]

        def exits(self, v):
            return ()

        def ensures(self, v):
            sp = v.old.self
            t = coerce(sp, v.old.s, is_text_arg(v))
            if two_sends:
                # two writes whose payloads concatenate to the line
                pl = cat(payload(sp, t), payload(sp, sp.linesep))
                return [('C08:peer-receives-the-line-and-one-separator', eq(v.g['sent'], cat(v.g0['sent'], pl))),
                        ('C08:returns-bytes-written', eq(v.result, length(pl)))] + \
                    logs_post(v, sp, 'send', cat(t, sp.linesep))
            line = cat(t, sp.linesep)
            return send_post(v, sp, line) + logs_post(v, sp, 'send', line)
    Sendline.__name__ = 'Sendline_' + cls.split('.')[-1]
    return Sendline


def make_write(cls):
    class Write(Contract):
        name = cls + '.write'
        props = ('C08', 'C11')
        standin = False

        def shape(self, b):
            sp, kind = transport_shape(b, cls, logs=('logfile', 'logfile_send'))
            return dict(self=sp, s=send_arg(b, kind))

        def requires(self, v):
            return spawn_requires(v)

        def exits(self, v):
            return ()

        def effects(self, v):
            sp = v.old.self
            t = coerce(sp, v.old.s, is_text_arg(v))
            v.g['sent'] = cat(v.g['sent'], payload(sp, t))
            v.g['nwrites'] = v.g['nwrites'] + 1
            for f in ('logfile', 'logfile_send'):
                if getattr(sp, f) is not None:
                    v.g['log:' + f] = cat(v.g['log:' + f], t)

        def ensures(self, v):
            sp = v.old.self
            t = coerce(sp, v.old.s, is_text_arg(v))
            return send_post(v, sp, t, returns_len=False) + logs_post(v, sp, 'send', t)
    Write.__name__ = 'Write_' + cls.split('.')[-1]
    return Write


class WritelinesLoop(LoopSpec):
    """payloads so far == concatenation of the items so far (ghost acc follows the specification)"""
    def vars(self, v):
        return {'s': TStr(v.l.self._kind)}

    def ghost(self, v):
        return {'sent': T.Bytes, 'nwrites': T.Int, 'acc': T.Bytes, 'log:logfile': TStr(v.l.self._kind),
                'log:logfile_send': TStr(v.l.self._kind), 'lacc': TStr(v.l.self._kind), 'clk': T.Real}

    def invariant(self, v):
        sp = v.old.self
        out = [('payloads-so-far', eq(v.g['sent'], cat(v.g0['sent'], v.g['acc']))),
               ('one-write-per-item', eq(v.g['nwrites'], v.g0['nwrites'] + v.l._i0)),
               ('clock', v.g['clk'] >= v.g0['clk'])]
        for f in ('logfile', 'logfile_send'):
            if getattr(sp, f) is not None:
                out.append(('log-so-far.' + f, And(eq(v.g['log:' + f], cat(v.g0['log:' + f], v.g['lacc'])),
                                                   Not(v.g['unflushed:' + f]))))
            else:
                out.append(('log-untouched.' + f, eq(v.g['log:' + f], v.g0['log:' + f])))
        out.append(('read-log-untouched', eq(v.g['log:logfile_read'], v.g0['log:logfile_read'])))
        return out

    def ghost_step(self, head, end):
        sp = head.old.self
        item = head.old.sequence.get(head.l._i0)
        end.g['acc'] = cat(head.g['acc'], payload(sp, item))
        end.g['lacc'] = cat(head.g['lacc'], item)


def make_writelines(cls):
    class Writelines(Contract):
        name = cls + '.writelines'
        props = ('C08', 'C11')
        loops = {0: WritelinesLoop()}
        standin = False

        def shape(self, b):
            sp, kind = transport_shape(b, cls, logs=('logfile', 'logfile_send'))
            self_obj = sp
            b.ghost('acc', '')
            b.ghost('lacc', '')
            sp_h = b.ctx.heap[sp.oid] if hasattr(b, 'ctx') else None
            if sp_h is not None:
                sp_h.fields['_kind'] = b.const(kind)
            seq = b.symlist('sequence', [('item', TStr(kind))], scalar=True)
            if hasattr(b, 'ctx'):
                # "any iterable object producing strings" (docstring): it may be a generator - one traversal only
                b.ctx.heap[seq.oid].fields['oneshot'] = True
            return dict(self=sp, sequence=seq)

        def requires(self, v):
            return spawn_requires(v)

        def exits(self, v):
            return ()

        def ensures(self, v):
            sp = v.old.self
            out = [('C08:peer-receives-every-item-in-order', eq(v.g['sent'], cat(v.g0['sent'], v.g['acc']))),
                   ('C08:one-write-per-item', eq(v.g['nwrites'], v.g0['nwrites'] + v.old.sequence.len))]
            for f in ('logfile', 'logfile_send'):
                if getattr(sp, f) is not None:
                    out.append(('C11:%s-gets-every-item' % f, eq(v.g['log:' + f], cat(v.g0['log:' + f], v.g['lacc']))))
            return out
    Writelines.__name__ = 'Writelines_' + cls.split('.')[-1]
    return Writelines


def make_control(meth, has_arg, returns):
    class Control(Contract):
        name = PTY + '.' + meth
        props = ('C08', 'C11')
        standin = False

        def shape(self, b):
            sp, kind = transport_shape(b, PTY, logs=('logfile', 'logfile_send'))
            d = dict(self=sp)
            if has_arg:
                d['char'] = b.str('char', 's')
            return d

        def outcomes(self, v):
            return [Ret(T.Int)] if returns else [Ret(T.NoneT)]

        def exits(self, v):
            return ()

        def ensures(self, v):
            sp = v.old.self
            sent_new = v.g['sent']
            n0 = length(v.g0['sent'])
            byte = sub(sent_new, n0, length(sent_new))
            out = [('C08:exactly-one-control-byte', And(prefix_of(v.g0['sent'], sent_new),
                                                        eq(length(sent_new), n0 + 1),
                                                        eq(v.g['nwrites'], v.g0['nwrites'] + 1)))]
            for f in ('logfile', 'logfile_send'):
                if getattr(sp, f) is not None:
                    out.append(('C11:%s-logged-once-and-flushed' % f,
                                And(prefix_of(v.g0['log:' + f], v.g['log:' + f]),
                                    eq(v.g['log:' + f], cat(v.g0['log:' + f], byte)) if sp.encoding is None
                                    else length(v.g['log:' + f]) >= length(v.g0['log:' + f]),
                                    Not(v.g['unflushed:' + f]))))
            out.append(('C11:read-log-untouched', eq(v.g['log:logfile_read'], v.g0['log:logfile_read'])))
            return out
    Control.__name__ = 'Control_' + meth
    return Control


class ReadNonblockingBase(Contract):
    """SpawnBase.read_nonblocking as executed for an fd-like transport: one os.read, one incremental decode
    with the instance's decoder, logged once, returned (C07, C11)."""
    name = SPAWNBASE + '.read_nonblocking'
    receiver = ('base',)
    props = ('C07', 'C11')
    standin = False

    def shape(self, b):
        sp, kind = transport_shape(b, FD, logs=('logfile', 'logfile_read'))
        return dict(self=sp, size=b.int('size'), timeout=b.none())

    def requires(self, v):
        return [('size-positive', v.a.size >= 1)]

    def outcomes(self, v):
        k = 'b' if v.old.self.encoding is None else 's'
        return [Ret(TStr(k), 'data'), Raises('EOF'), Raises('OSError', 'error')]

    def exits(self, v):
        return ('EOF', 'OSError')

    def ensures(self, v):
        sp = v.old.self
        new = v.new.self
        if v.raised is not None:
            out = [('nothing-delivered-or-logged', And(eq(v.g['dec_in'], v.g0['dec_in']),
                                                       eq(v.g['log:logfile'], v.g0['log:logfile']),
                                                       eq(v.g['log:logfile_read'], v.g0['log:logfile_read'])))]
            if v.raised == 'EOF':
                out.append(('C04:eof-flag-set', eq(new.flag_eof, True)))
            return out
        got = sub(v.g['rawin'], length(v.g0['rawin']), length(v.g['rawin']))
        out = [('C06:at-most-size', length(got) <= v.old.size),
               ('received-something', And(prefix_of(v.g0['rawin'], v.g['rawin']), length(got) >= 1))]
        if sp.encoding is None:
            out.append(('C07:bytes-pass-through-unchanged', eq(v.result, got)))
        else:
            out += [('C07:chunk-goes-to-the-instance-decoder-once', And(eq(v.g['dec_in'], cat(v.g0['dec_in'], got)),
                                                                       eq(v.g['ndec'], v.g0['ndec'] + 1))),
                    ('C07:decoder-output-is-delivered', eq(v.g['dec_out'], cat(v.g0['dec_out'], v.result)))]
        return out + logs_post(v, sp, 'read', v.result)


class OsRead(Contract):
    """os.read(fd, n): a non-empty chunk of at most n bytes, b'' (BSD-style EOF) or OSError (EIO = Linux EOF)"""
    params = ['fd', 'n']

    def outcomes(self, v):
        return [Ret(T.Bytes, 'data'), Ret(T.Bytes, 'empty'), Raises('OSError', 'EIO'), Raises('OSError', 'other')]

    def effects(self, v):
        if v.label == 'data':
            v.g['rawin'] = cat(v.g['rawin'], v.result)
        if v.raised is not None:
            import errno
            from pyvc.values import VTuple, VInt, VAny
            h = v.ctx.heap[v.exc.oid]
            if v.label == 'EIO':
                h.fields['args'] = VTuple([VInt(errno.EIO)])
            else:
                other = v.ctx.fresh(T.Int, 'errno')
                v.ctx.assume(other.t != errno.EIO)
                h.fields['args'] = VTuple([other])

    def ensures(self, v):
        if v.label == 'data':
            return [('chunk', And(length(v.result) >= 1, length(v.result) <= v.old.n))]
        if v.label == 'empty':
            return [('empty', eq(v.result, ''))]
        return []


def register(reg):
    reg.add_iface('iface:file', 'write', FileWrite)
    reg.add_iface('iface:file', 'flush', FileFlush)
    reg.add_extern('os.write', OsWrite)
    reg.add_iface('iface:pipe', 'write', PipeWrite)
    reg.add_iface('iface:socket', 'sendall', SockSendall)
    reg.add_iface('iface:socket', 'send', SockSendPartial)
    reg.add_iface('iface:encoder', 'encode', EncoderEncode)
    reg.add_iface('iface:decoder', 'decode', DecoderDecode)
    for m in ('sendcontrol', 'sendeof', 'sendintr'):
        reg.add_iface('iface:ptyproc', m, PtySendControl)
    reg.add(LogContract)
    for cls in TRANSPORTS:
        reg.add(make_send(cls, channel_fd=cls in (PTY, FD)))
        reg.add(make_sendline(cls, two_sends=(cls == POPEN)))
        reg.add(make_write(cls))
        reg.add(make_writelines(cls))
    reg.add(make_control('sendcontrol', True, True))
    reg.add(make_control('sendeof', False, False))
    reg.add(make_control('sendintr', False, False))
    reg.inline_ok.update({SPAWNBASE + '._coerce_send_string', PTY + '._log_control'})
