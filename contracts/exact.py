"""C03 for the exact-string search: the incremental tail search agrees with naive full re-search.

The Expecter methods are verified a second time with `self.searcher` a real searcher_string (its search() used through
the contract proved under C02).  Ghost-free statement, all in terms of Find(text, s, 0) = the lowest index at which
s occurs in text, or -1 (what `text.find(s)` returns):

  J(P)        no listed string occurs in the naive region of the pending text P (all of P, or its last W characters)
  miss        new_data / existing_data return None   ==>  J(pending text)            [no missed match]
  hit         they return an index                   ==>  the reported position is the lowest position at which any
                                                          listed string occurs in the region, and among the strings
                                                          occurring there the first listed one is reported
  loop        J holds at the head of every iteration of expect_loop, so a hit is reported by the very search that
              follows the read which completed the occurrence                         [never later]

The bridge from the tail search to Find(P, s, 0) is one lemma (incremental_find), an implication over strings and
integers that is proved on every run from the definition of Find (contracts/extra_c03.py) and only instantiated here."""
from pyvc.types import *
from pyvc.cbase import Contract, LoopSpec, Ret, Raises
from pyvc.spec import *
from .common import *
from .expect import (DoSearch, ExistingData, NewData, ExpectLoop, ExpectLoopInv, SS, ascending, ss_off, pend_of, sbuf_of,
                     expect_outcome_post, W_ok)

E = 'pexpect.expect.Expecter'


def exact_shape(b, loop=False):
    sp, kind = spawn_shape(b, loop=loop)
    L = b.int('longest_string')
    se = b.obj('searcher', SS, sealed=True, eof_index=b.int('eof_index'), timeout_index=b.int('timeout_index'),
               _strings=b.symlist('_strings', [('idx', T.Int), ('s', TStr(kind))]),
               longest_string=L, _kind=b.const(kind),
               start=b.any('start0'), end=b.any('end0'), match=b.any('smatch0'))
    W = b.opt('W', lambda: b.int('W'))
    me = b.obj('self', E, sealed=True, spawn=sp, searcher=se, searchwindowsize=W, lookback=L)
    b.ghost('bk', 0)
    b.ghost('ss.bk', 0)
    return me, sp, se, kind


def searcher_inv(se):
    """class invariant of searcher_string (established by __init__, C02/C04)"""
    lst = se._strings
    return ascending(lst) + [('longest-bounds-all', forall(0, lst.len, lambda k: length(lst.get(k)[1]) <= se.longest_string)),
                             ('longest-nonneg', se.longest_string >= 0)]


def region(P, W):
    return P if W is None else last_n(P, W)


def J(P, W, lst):
    """no listed string occurs in the naive region of P"""
    Rg = region(P, W)
    return forall(0, lst.len, lambda k: eq(find0(Rg, lst.get(k)[1]), -1))


def find0(text, s):
    return find_from(text, s, 0)


def J_old(P, fresh, lst):
    """the text before the fresh part has been searched without success (or there is none)"""
    Pold = sub(P, 0, length(P) - fresh)
    return forall(0, lst.len, lambda k: Or(eq(fresh, length(P)), eq(find0(Pold, lst.get(k)[1]), -1)))


def which_entry(v, lst):
    """position in the searcher's list of the entry whose index was returned (witness of the hit clauses)"""
    return witness(v, 'ss.bk', lst.len, lambda k: lst.get(k)[0] == v.result)


def hit_clauses(tagp, P, W, lst, result, pos_in_P, bk):
    """the reported hit is what naive search of the region reports"""
    Rg = region(P, W)
    d = length(P) - length(Rg)
    pos = pos_in_P - d
    n = lst.len
    return [(tagp + 'hit.is-an-occurrence-of-the-reported-string',
             And(0 <= bk, bk < n, eq(lst.get(bk)[0], result), eq(find0(Rg, lst.get(bk)[1]), pos), pos >= 0)),
            (tagp + 'hit.no-listed-string-occurs-earlier',
             forall(0, n, lambda k: Or(eq(find0(Rg, lst.get(k)[1]), -1), find0(Rg, lst.get(k)[1]) >= pos))),
            (tagp + 'hit.first-listed-wins-a-tie',
             forall(0, n, lambda k: Implies(eq(find0(Rg, lst.get(k)[1]), pos), bk <= k)))]


class DoSearchExact(DoSearch):
    props = ('C03',)
    only_in = 'exact'
    context = 'exact'

    def shape(self, b):
        me, sp, se, kind = exact_shape(b)
        return dict(self=me, window=b.str('window', kind), freshlen=b.int('freshlen'))

    def requires(self, v):
        me = v.a.self
        P = pend_of(me.spawn)
        out = DoSearch.requires(self, v) + searcher_inv(me.searcher)
        if me.searchwindowsize is None:
            out += [('C03:fresh-within-pending', And(0 <= v.a.freshlen, v.a.freshlen <= length(P))),
                    ('C03:old-text-was-searched', J_old(P, v.a.freshlen, me.searcher._strings))]
        return out

    def lemmas(self, v):
        me = v.old.self
        if me.searchwindowsize is not None:
            return []
        P, w, lst = pend_of(me.spawn), v.old.window, me.searcher._strings
        fresh = smin(v.old.freshlen, length(w))           # do_search clamps freshlen to the window
        return [('incremental_find', forall(0, lst.len, lambda k: lemma_incremental_find(P, w, lst.get(k)[1], fresh)))]

    def ensures(self, v):
        me = v.old.self
        old, new = me.spawn, v.new.self.spawn
        P, W, lst = pend_of(old), me.searchwindowsize, me.searcher._strings
        out = DoSearch.ensures(self, v)
        if v.result is None:
            out.append(('C03:miss.no-listed-string-occurs-in-the-region', J(P, W, lst)))
        else:
            out += hit_clauses('C03:', P, W, lst, v.result, length(new.before), which_entry(v, lst))
        return out


class ExistingDataExact(ExistingData):
    props = ('C03',)
    only_in = 'exact'
    context = 'exact'

    def shape(self, b):
        me, sp, se, kind = exact_shape(b)
        return dict(self=me)

    def requires(self, v):
        return ExistingData.requires(self, v) + searcher_inv(v.a.self.searcher)

    def effects(self, v):
        ExistingData.effects(self, v)
        v.xbk = v.draw(T.Int, 'xbk')
        v.g['ss.bk'] = v.xbk

    def ensures(self, v):
        me = v.old.self
        old, new = me.spawn, v.new.self.spawn
        P, W, lst = pend_of(old), me.searchwindowsize, me.searcher._strings
        out = ExistingData.ensures(self, v)
        if v.result is None:
            out.append(('C03:miss.no-listed-string-occurs-in-the-region', J(P, W, lst)))
        else:
            out += hit_clauses('C03:', P, W, lst, v.result, length(new.before), which_entry(v, lst))
        return out


class NewDataExact(NewData):
    props = ('C03',)
    only_in = 'exact'
    context = 'exact'

    def shape(self, b):
        me, sp, se, kind = exact_shape(b)
        return dict(self=me, data=b.str('data', kind))

    def requires(self, v):
        me = v.a.self
        out = NewData.requires(self, v) + searcher_inv(me.searcher)
        if me.searchwindowsize is None:
            # what the previous search (existing_data or new_data) left behind: nothing found so far
            out.append(('C03:nothing-found-so-far', J(pend_of(me.spawn), None, me.searcher._strings)))
        return out

    def effects(self, v):
        v.xbk = v.draw(T.Int, 'xbk')
        v.g['ss.bk'] = v.xbk

    def ensures(self, v):
        me = v.old.self
        old, new = me.spawn, v.new.self.spawn
        P, W, lst = cat(pend_of(old), v.old.data), me.searchwindowsize, me.searcher._strings
        out = NewData.ensures(self, v)
        if v.result is None:
            out.append(('C03:miss.no-listed-string-occurs-in-the-region', J(P, W, lst)))
        else:
            out += hit_clauses('C03:', P, W, lst, v.result, length(new.before), which_entry(v, lst))
        return out


class ExactLoopInv(ExpectLoopInv):
    def invariant(self, v):
        me = v.old.self
        return ExpectLoopInv.invariant(self, v) + \
            [('C03:nothing-found-so-far', J(pend_of(v.l.spawn), me.searchwindowsize, me.searcher._strings))]


class ExpectLoopExact(ExpectLoop):
    props = ('C03',)
    only_in = 'exact'
    context = 'exact'
    loops = {0: ExactLoopInv()}

    def shape(self, b):
        me, sp, se, kind = exact_shape(b, loop=True)
        b.ghost('R', b'' if (kind == 'b' and hasattr(b, 'source')) else '')
        b.ghost('clk', b.real('clk0'))
        b.ghost('nreads', 0)
        return dict(self=me, timeout=b.opt('timeout', lambda: b.real('timeout')))

    def requires(self, v):
        return ExpectLoop.requires(self, v) + searcher_inv(v.a.self.searcher)

    def ensures(self, v):
        me = v.old.self
        old, new = me.spawn, v.new.self.spawn
        W, lst = me.searchwindowsize, me.searcher._strings
        out = ExpectLoop.ensures(self, v)
        EOFc, TOc = ClassConst('EOF'), ClassConst('TIMEOUT')
        total = cat(pend_of(old), v.g['R'])
        if eq(new.after, TOc) is True:
            # a call that gives up has not overlooked anything: the pending text (its naive region) holds no listed string
            out.append(('C03:timeout.nothing-was-overlooked', J(total, W, lst)))
        elif v.raised is None and not (eq(new.after, EOFc) is True):
            out += hit_clauses('C03:', total, W, lst, v.result, length(new.before), which_entry(v, lst))
        return out


# ---- the same for the regex searcher: only the listed-index clause (its agreement with naive search is the window) --
SRq = 'pexpect.expect.searcher_re'


def re_shape(b, loop=False):
    sp, kind = spawn_shape(b, loop=loop)
    se = b.obj('searcher', SRq, sealed=True, eof_index=b.int('eof_index'), timeout_index=b.int('timeout_index'),
               _searches=b.symlist('_searches', [('idx', T.Int), ('s', TRegex(kind))]), _kind=b.const(kind),
               start=b.any('start0'), end=b.any('end0'), match=b.any('smatch0'))
    W = b.opt('W', lambda: b.int('W'))
    me = b.obj('self', E, sealed=True, spawn=sp, searcher=se, searchwindowsize=W, lookback=b.none())
    b.ghost('bk', 0)
    b.ghost('ss.bk', 0)
    return me, sp, se, kind


class DoSearchRe(DoSearch):
    props = ('C02',)
    only_in = 're'
    context = 're'
    standin = False

    def shape(self, b):
        me, sp, se, kind = re_shape(b)
        return dict(self=me, window=b.str('window', kind), freshlen=b.int('freshlen'))

    def requires(self, v):
        return DoSearch.requires(self, v) + ascending(v.a.self.searcher._searches)


class ExistingDataRe(ExistingData):
    props = ('C02',)
    only_in = 're'
    context = 're'
    standin = False

    def shape(self, b):
        me, sp, se, kind = re_shape(b)
        return dict(self=me)

    def requires(self, v):
        return ExistingData.requires(self, v) + ascending(v.a.self.searcher._searches)


class NewDataRe(NewData):
    props = ('C02',)
    only_in = 're'
    context = 're'
    standin = False

    def shape(self, b):
        me, sp, se, kind = re_shape(b)
        return dict(self=me, data=b.str('data', kind))

    def requires(self, v):
        return NewData.requires(self, v) + ascending(v.a.self.searcher._searches)


class ExpectLoopRe(ExpectLoop):
    props = ('C02',)
    only_in = 're'
    context = 're'
    standin = False

    def shape(self, b):
        me, sp, se, kind = re_shape(b, loop=True)
        b.ghost('R', b'' if (kind == 'b' and hasattr(b, 'source')) else '')
        b.ghost('clk', b.real('clk0'))
        b.ghost('nreads', 0)
        return dict(self=me, timeout=b.opt('timeout', lambda: b.real('timeout')))

    def requires(self, v):
        return ExpectLoop.requires(self, v) + ascending(v.a.self.searcher._searches)


class ExpecterInit(Contract):
    """Expecter.__init__: the look-back is the searcher's longest string (None for a searcher that has none); -1 means
    the spawn's own search window."""
    name = E + '.__init__'
    props = ('C03',)
    standin = False
    only_in = 'init'        # verified on its own; callers keep inlining the (loop-free) constructor body
    context = 'init'

    def shape(self, b):
        sp = b.obj('spawn', SPAWNBASE, sealed=False, searchwindowsize=b.opt('spawn.W', lambda: b.int('spawn.W')))
        fields = dict(eof_index=b.int('eof_index'), timeout_index=b.int('timeout_index'))
        if b.choice('searcher', ['exact', 'other']) == 'exact':
            fields['longest_string'] = b.int('longest_string')
        se = b.obj('searcher', 'iface:searcher', sealed=True, **fields)
        me = b.obj('self', E, sealed=False)
        c = b.choice('searchwindowsize', ['default', 'none', 'some'])
        W = b.const(-1) if c == 'default' else (b.none() if c == 'none' else b.int('W'))
        return dict(self=me, spawn=sp, searcher=se, searchwindowsize=W)

    @staticmethod
    def _is_default(w):
        if isinstance(w, int):
            return w == -1
        if is_sym(w):
            import z3
            z = z3.simplify(w)
            return z3.is_int_value(z) and z.as_long() == -1
        return False

    def requires(self, v):
        w = v.a.searchwindowsize
        return [] if (w is None or self._is_default(w)) else [('W-not-the-sentinel', Not(eq(w, -1)))]

    def exits(self, v):
        return ()

    def ensures(self, v):
        me, se, w = v.new.self, v.old.searcher, v.old.searchwindowsize
        want_w = v.old.spawn.searchwindowsize if self._is_default(w) else w
        return [('C03:lookback-is-the-longest-listed-string',
                 eq(me.lookback, se.longest_string) if se.has('longest_string') else me.lookback is None),
                ('C03:window-is-the-one-asked-for', same(me.searchwindowsize, want_w))]


def register(reg):
    for c in (DoSearchExact, ExistingDataExact, NewDataExact, ExpectLoopExact, ExpecterInit, DoSearchRe, ExistingDataRe, NewDataRe, ExpectLoopRe):
        reg.add(c)
