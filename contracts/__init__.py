from pyvc.cbase import Registry


def build_registry():
    from . import expect
    reg = Registry()
    expect.register(reg)
    return reg
