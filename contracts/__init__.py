from pyvc.cbase import Registry


def build_registry():
    from . import externs, expect, spawnbase, screen, ansi, utils, transports, lifecycle, readpath, pxssh, run, replwrap, aio, patterns, exact, interact, ctors
    reg = Registry()
    externs.register(reg)
    spawnbase.register(reg)
    expect.register(reg)
    screen.register(reg)
    ansi.register(reg)
    utils.register(reg)
    transports.register(reg)
    lifecycle.register(reg)
    readpath.register(reg)
    pxssh.register(reg)
    run.register(reg)
    replwrap.register(reg)
    aio.register(reg)
    patterns.register(reg)
    exact.register(reg)
    interact.register(reg)
    ctors.register(reg)
    return reg
