"""Contracts for pexpect/utils.py (C13: command-line splitting, executable lookup)."""
from pyvc.types import *
from pyvc.cbase import Contract, LoopSpec, Ret, Raises
from pyvc.spec import *

UT = 'pexpect.utils.'
BASIC, ESC, SQ, DQ, WS = 0, 1, 2, 3, 4


def ref_split(s):
    """The documented rules as a reference automaton (concrete): whitespace separates; backslash protects the
    next character; single and double quotes protect everything up to the closing quote."""
    args, arg, st = [], '', WS
    for c in s:
        if st in (BASIC, WS):
            if c == '\\':
                st = ESC
            elif c == "'":
                st = SQ
            elif c == '"':
                st = DQ
            elif c.isspace():
                if st != WS:
                    args.append(arg)
                    arg = ''
                    st = WS
            else:
                arg += c
                st = BASIC
        elif st == ESC:
            arg += c
            st = BASIC
        elif st == SQ:
            if c == "'":
                st = BASIC
            else:
                arg += c
        else:
            if c == '"':
                st = BASIC
            else:
                arg += c
    if arg != '':
        args.append(arg)
    return args


def is_space(c):
    if is_sym(c):
        import z3
        return z3.Function('isspace', z3.StringSort(), z3.BoolSort())(c)
    return c.isspace()


class SplitLoop(LoopSpec):
    """The loop body is the reference transition function: ghost (rstate, rarg, rlist) follow the documented
    rules step by step, the program variables must agree with them after every character."""
    vars = {'state': T.Int, 'arg': T.Text, 'arg_list': TSymList((('a', T.Text),), True), 'c': T.Text}
    ghost = {'rstate': T.Int, 'rarg': T.Text, 'rlen': T.Int, 'rarr': TArray(T.Text)}

    def invariant(self, v):
        g = v.g
        lst = v.l.arg_list
        return [('state-agrees', eq(v.l.state, g['rstate'])),
                ('state-valid', And(0 <= g['rstate'], g['rstate'] <= 4)),
                ('argument-agrees', eq(v.l.arg, g['rarg'])),
                ('list-length-agrees', And(eq(lst.len, g['rlen']), g['rlen'] >= 0)),
                ('list-agrees', forall(0, g['rlen'], lambda k: eq(lst.get(k), select(g['rarr'], k))))]

    def ghost_step(self, head, end):
        g0, c = head.g, end.l.c
        st, arg, n, arr = g0['rstate'], g0['rarg'], g0['rlen'], g0['rarr']
        outside = Or(eq(st, BASIC), eq(st, WS))
        bs, sq, dq, sp = eq(c, '\\'), eq(c, "'"), eq(c, '"'), is_space(c)
        push = And(outside, Not(bs), Not(sq), Not(dq), sp, Not(eq(st, WS)))
        append = Or(And(outside, Not(bs), Not(sq), Not(dq), Not(sp)), eq(st, ESC),
                    And(eq(st, SQ), Not(sq)), And(eq(st, DQ), Not(dq)))
        new_state = ite(outside, ite(bs, ESC, ite(sq, SQ, ite(dq, DQ, ite(sp, WS, BASIC)))),
                        ite(eq(st, ESC), BASIC, ite(eq(st, SQ), ite(sq, BASIC, SQ), ite(dq, BASIC, DQ))))
        end.g['rstate'] = new_state
        end.g['rarg'] = ite(push, '', ite(append, cat(arg, c), arg))
        end.g['rlen'] = ite(push, n + 1, n)
        end.g['rarr'] = ite(push, store(arr, n, arg), arr)


def cmd_has_word(s):
    """spec predicate: the documented splitting rules give at least one argument for the command line s"""
    if is_sym(s):
        return _uf('CmdHasWord', 's', 'b')(s)
    return len(ref_split(s)) >= 1


class SplitCommandLine(Contract):
    name = UT + 'split_command_line'
    props = ('C13',)
    loops = {0: SplitLoop()}

    def shape(self, b):
        if not hasattr(b, 'source'):
            b.ghost('rstate', WS)          # the documented rules start between arguments
            b.ghost('rarg', '')
            b.ghost('rlen', 0)
            b.ghost('rarr', b.ctx.fresh(TArray(T.Text), 'rarr0').t)
        return dict(command_line=b.str('command_line', 's'))

    def outcomes(self, v):
        return [Ret(TSymList((('a', T.Text),), True))]

    def exits(self, v):
        return ()

    def ensures(self, v):
        if getattr(v, 'concrete', False):
            want = ref_split(v.old.command_line)
            got = [v.result.get(i) for i in range(v.result.len)] if v.result is not None else None
            return [('splits-by-the-documented-rules', got == want)]
        g = v.g
        res = v.result
        if 'rarg' not in g:
            # seen from a caller: some list of arguments (its content is this function's own contract); the spec
            # predicate CmdHasWord(s) is *defined* as "the documented rules give at least one argument for s"
            return [('def:CmdHasWord', Iff(cmd_has_word(v.old.command_line), res.len >= 1))]
        flush = Not(eq(g['rarg'], ''))
        n = g['rlen']
        return [('result-length', eq(res.len, ite(flush, n + 1, n))),
                ('result-arguments', forall(0, n, lambda k: eq(res.get(k), select(g['rarr'], k)))),
                ('last-argument-flushed', Implies(flush, eq(res.get(n), g['rarg'])))]

    def effects(self, v):
        if 'rarg' not in v.g:       # at a call site: remember which line was split and the words it gave
            v.g['cmdline.of'] = v.old.command_line
            v.g['cmdline.words'] = v.result



# ---- executable lookup ------------------------------------------------------------------------------------
def _uf(name, *sorts):
    import z3
    m = {'s': z3.StringSort(), 'b': z3.BoolSort(), 'i': z3.IntSort()}
    return z3.Function(name, *[m[x] for x in sorts])


def fs_exec(path):
    """the file system says `path` is an executable regular file (or a symlink to one)"""
    rp = _uf('RealPath', 's', 's')(path)
    return And(_uf('IsFile', 's', 'b')(rp), _uf('Access', 's', 'b')(rp))


def path_join(a, b):
    return _uf('PathJoin', 's', 's', 's')(a, b)


class OsPathFn(Contract):
    """os.path.* / os.access as functions of their argument (the file system is not changed by the lookup)"""
    params = ['p', 'q']
    defaults = {'q': None}
    fn, ret = None, 's'

    def outcomes(self, v):
        return [Ret(T.Text if self.ret == 's' else T.Bool)]

    def ensures(self, v):
        if self.fn == 'PathJoin':
            return [('fn', eq(v.result, path_join(v.old.p, v.old.q)))]
        return [('fn', eq(v.result, _uf(self.fn, 's', self.ret)(v.old.p)))]


def os_fn(fn, ret='s'):
    return type('Os_' + fn, (OsPathFn,), dict(fn=fn, ret=ret))


class OsStat(Contract):
    params = ['p']

    def outcomes(self, v):
        return [Ret(T.Any)]


class EnvGet(Contract):
    """env.get('PATH') / os.environ.get('PATH'): None or a string; remembers which environment was consulted"""
    params = ['self', 'key']
    which = 'env'

    def bind(self, args, kwargs, interp):
        if self.which == 'os':
            return {'key': args[0]}
        return Contract.bind(self, args, kwargs, interp)

    def outcomes(self, v):
        return [Ret(T.NoneT, 'unset'), Ret(T.Text, 'set')]

    def effects(self, v):
        v.g['consulted'] = self.which
        v.g['PATH'] = v.result


class StrSplit(Contract):
    """p.split(sep): some list of strings (the entries); remembered as ghost `entries`"""
    params = ['s', 'sep']

    def outcomes(self, v):
        return [Ret(TSymList((('e', T.Text),), True))]

    def effects(self, v):
        v.g['entries'] = v.result
        v.g['split_of'] = v.old.s


class IsExecutableFile(Contract):
    name = UT + 'is_executable_file'
    props = ('C13',)
    standin = False

    def shape(self, b):
        return dict(path=b.str('path', 's'))

    def outcomes(self, v):
        return [Ret(T.Bool)]

    def exits(self, v):
        return ()

    def ensures(self, v):
        return [('is-executable-regular-file', eq(v.result, fs_exec(v.old.path)))]


class WhichLoop(LoopSpec):
    vars = {'path': T.Text, 'ff': T.Text}

    def invariant(self, v):
        lst = v.l.pathlist
        f = v.old.filename
        return [('no-earlier-entry-holds-an-executable',
                 forall(0, v.l._i0, lambda k: Not(fs_exec(path_join(lst.get(k), f)))))]


class Which(Contract):
    name = UT + 'which'
    props = ('C13',)
    loops = {0: WhichLoop()}
    standin = False

    def shape(self, b):
        env = b.opt('env', lambda: b.obj('env', 'iface:env', sealed=True))
        b.ghost('consulted', None)
        b.ghost('PATH', None)
        b.ghost('entries', None)
        b.ghost('split_of', None)
        return dict(filename=b.str('filename', 's'), env=env)

    def outcomes(self, v):
        return [Ret(T.NoneT, 'not-found'), Ret(T.Text, 'found')]

    def exits(self, v):
        return ()

    def effects(self, v):
        v.g['which.env'] = v.old.env
        v.g['which.filename'] = v.old.filename

    def ensures(self, v):
        f = v.old.filename
        if getattr(v, 'label', None) is not None:
            return []           # callers only need the outcome; the lookup itself is proved on which()
        explicit = And(Not(eq(_uf('Dirname', 's', 's')(f), '')), fs_exec(f))
        lst = v.g['entries']
        out = [('explicit-path-wins', Implies(explicit, eq(v.result, f) if v.result is not None else False))]
        if lst is None:
            # returned before the PATH was looked at: only the explicit-path case may do that
            out.append(('only-explicit-path-skips-the-search', explicit))
            return out
        out.append(('env-argument-PATH-is-the-effective-PATH',
                    eq(v.g['consulted'], 'os') if v.old.env is None else eq(v.g['consulted'], 'env')))
        defpath = ':/bin:/usr/bin'
        p = v.g['PATH']
        empty = True if p is None else eq(length(p), 0)
        out.append(('PATH-or-default-is-split', eq(v.g['split_of'], defpath) if p is None else
                    eq(v.g['split_of'], ite(empty, defpath, p))))
        if v.result is None:
            out.append(('not-found-means-no-entry-matches',
                        forall(0, lst.len, lambda k: Not(fs_exec(path_join(lst.get(k), f))))))
        else:
            k = v.l._i0
            out += [('found-is-an-entry', And(0 <= k, k < lst.len, eq(v.result, path_join(lst.get(k), f)),
                                              fs_exec(v.result))),
                    ('found-is-the-first-match', forall(0, k, lambda j: Not(fs_exec(path_join(lst.get(j), f)))))]
        return out


# ---- spawn._spawn: the child is started exactly as requested ---------------------------------------------
PTYS = 'pexpect.pty_spawn.spawn'


class PtySpawnCall(Contract):
    """ptyprocess.PtyProcess.spawn(argv, cwd, env, echo, preexec_fn, dimensions): remembered as ghosts; what the
    child finally sees (execvpe, chdir, TIOCSWINSZ, termios echo) is ptyprocess / the kernel."""
    params = ['argv', 'cwd', 'env', 'echo', 'preexec_fn', 'dimensions', 'pass_fds']
    defaults = {'cwd': None, 'env': None, 'echo': True, 'preexec_fn': None, 'dimensions': (24, 80), 'pass_fds': ()}

    def outcomes(self, v):
        def mk(interp, pre):
            from pyvc.values import HObj, VInt
            ctx = interp.ctx
            return ctx.alloc(HObj('iface:ptyproc', 'obj', {'pid': ctx.fresh(T.Int, 'pid'), 'fd': ctx.fresh(T.Int, 'fd')}, closed=False))
        return [Ret(T.Any, make=mk)]

    def effects(self, v):
        v.g['launched'] = v.g.get('launched', 0) + 1
        for k in ('argv', 'cwd', 'env', 'echo', 'preexec_fn'):
            v.g['launch.' + k] = getattr(v.old, k)
        v.g['launch.dimensions_given'] = 'dimensions' in v.args_v and not v.args_v.get('_defaulted_dimensions', False)
        v.g['launch.dimensions'] = v.old.dimensions

    def bind(self, args, kwargs, interp):
        b = Contract.bind(self, args, kwargs, interp)
        if 'dimensions' not in kwargs and len(args) < 6:
            b['_defaulted_dimensions'] = interp.const(True)
        return b


class EncodeArgsLoop(LoopSpec):
    """[a if isinstance(a, bytes) else a.encode(self.encoding) for a in self.args] over the words of a command line
    (the list form has a concrete length and is followed element by element)"""
    def vars(self, v):
        return {'_comp0': TSymList((('a', T.Bytes),), True)}

    def invariant(self, v):
        src, out, i = v.l.self.args, v.l._comp0, v.l._i100
        return [('out-len', out.len == i),
                ('C13:words-so-far-encoded-in-order', forall(0, i, lambda k: eq(out.get(k), utf8_transcode(src.get(k), True))))]

    def variant(self, v):
        return v.l.self.args.len - v.l._i100


class SpawnLaunch(Contract):
    """_spawn with an explicit argument list of length 1 or 2 (the option pass-through does not depend on the
    length; command lines given as one string go through split_command_line, under contract above)."""
    name = PTYS + '._spawn'
    props = ('C13',)
    standin = False
    comps = {0: EncodeArgsLoop()}

    def shape(self, b):
        kind = b.choice('mode', ['b', 's'])
        nargs = b.choice('nargs', [0, 1, 2])      # 0: the command line is one string (split by the documented rules)
        args = b.list([b.str('arg%d' % i, 's') for i in range(nargs)])
        env = b.opt('self.env', lambda: b.obj('env', 'iface:env', sealed=True))
        sp = b.obj('self', PTYS, sealed=False, env=env, cwd=b.opt('cwd', lambda: b.str('cwd', 's')),
                   echo=b.bool('echo'), ignore_sighup=b.bool('ignore_sighup'),
                   encoding=b.none() if kind == 'b' else b.const('utf-8'), codec_errors=b.str('codec_errors', 's'), pid=b.none(),
                   args=b.none(), command=b.none(), name=b.any('name0'))
        for k in ('consulted', 'PATH', 'entries', 'split_of'):
            b.ghost(k, None)
        b.ghost('launched', 0)
        dims = b.opt('dimensions', lambda: b.tuple(b.int('rows'), b.int('cols')))
        pre = b.opt('preexec_fn', lambda: b.any('preexec_fn'))
        return dict(self=sp, command=b.str('command', 's'), args=args, preexec_fn=pre, dimensions=dims)

    def requires(self, v):
        if v.a.args.len == 0:
            # spawn('') / spawn('   ') ask for nothing to be started (the real code fails with IndexError)
            return [('the-command-line-names-a-program', cmd_has_word(v.a.command))]
        return []

    def outcomes(self, v):
        return [Ret(T.NoneT), Raises('ExceptionPexpect', 'not-found'), Raises('UnicodeEncodeError')]

    def exits(self, v):
        return ('ExceptionPexpect', 'UnicodeEncodeError')

    def ensures(self, v):
        if v.raised is not None:
            return [('nothing-launched-on-error', eq(v.g['launched'], 0))]
        sp, new = v.old.self, v.new.self
        g = v.g
        out = [('C13:launched-exactly-once', eq(g['launched'], 1)),
               ('C13:working-directory', eq(g['launch.cwd'], sp.cwd)),
               ('C13:environment', (g['launch.env'] is None) if sp.env is None else eq(g['launch.env'], sp.env)),
               ('C13:echo-setting', eq(g['launch.echo'], sp.echo)),
               ('C13:PATH-of-the-env-argument', (g.get('which.env') is None) if sp.env is None else eq(g.get('which.env'), sp.env))]
        # the argument vector: the list form is taken verbatim (no re-splitting, no re-ordering, nothing dropped), the
        # program is what which() found for exactly the command given; text arguments are encoded in unicode mode
        argv, args0 = g['launch.argv'], v.old.args
        if not getattr(v, 'concrete', False):
            enc = (lambda t: t) if sp.encoding is None else (lambda t: utf8_transcode(t, True))
            n = args0.len
            if n == 0:
                # string form: the words are split_command_line(command); the program is looked up under the first
                # word and every other word reaches the child unchanged, in order
                words = g.get('cmdline.words')
                out.append(('C13:the-command-line-given-is-split', And(words is not None, eq(g.get('cmdline.of'), v.old.command))))
                if words is not None:
                    out += [('C13:which-is-asked-for-the-first-word', eq(g.get('which.filename'), words.get(0))),
                            ('C13:argv-has-every-word', eq(argv.len, words.len)),
                            ('C13:argv0-is-the-program-found', eq(argv.get(0), enc(new.command))),
                            ('C13:words-verbatim-in-order', forall(1, words.len, lambda k: eq(argv.get(k), enc(words.get(k))))),
                            ('C13:args-attribute-has-every-word', eq(new.args.len, argv.len)),
                            ('C13:args-attribute-is-argv', forall(0, argv.len, lambda k: eq(new.args.get(k), argv.get(k))))]
            else:
                out.append(('C13:which-is-asked-for-the-command-given', eq(g.get('which.filename'), v.old.command)))
                out.append(('C13:argv-has-the-program-and-every-argument', eq(argv.len, n + 1)))
                if isinstance(argv.len, int) and argv.len == n + 1:
                    out.append(('C13:argv0-is-the-program-found', eq(argv.get(0), enc(new.command))))
                    out.append(('C13:arguments-verbatim-in-order', And(*[eq(argv.get(i + 1), enc(args0.get(i))) for i in range(n)])))
                    out.append(('C13:args-attribute-is-program-plus-arguments',
                                And(eq(new.args.len, n + 1), *[eq(new.args.get(i), argv.get(i)) for i in range(n + 1)])))
        d = v.old.dimensions
        if d is None:
            out.append(('C13:default-terminal-size', g['launch.dimensions_given'] is False))
        else:
            out.append(('C13:terminal-size', And(g['launch.dimensions_given'] is True, eq(g['launch.dimensions'], d))))
        pre = g['launch.preexec_fn']
        if getattr(v, 'concrete', False):
            return out
        from pyvc.values import VFunc
        # SIGHUP disposition: with ignore_sighup the child gets pexpect's wrapper (installs SIG_IGN, then calls the
        # user's function); without it exactly the user's function
        wrapper = isinstance(pre, VFunc) and pre.kind == 'closure'
        out.append(('C13:sighup-disposition', Implies(sp.ignore_sighup, wrapper)))
        if not wrapper:
            out.append(('C13:user-preexec-fn-unchanged', And(Not(sp.ignore_sighup), same(pre, v.old.preexec_fn))))
        out.append(('C13:process-handle', And(eq(new.pid, new.ptyproc.pid), eq(new.child_fd, new.ptyproc.fd),
                                              eq(new.terminated, False), eq(new.closed, False))))
        return out


def register(reg):
    reg.add(SplitCommandLine)
    reg.add(IsExecutableFile)
    reg.add(Which)
    for nm, c in (('os.path.realpath', os_fn('RealPath')), ('os.path.dirname', os_fn('Dirname')),
                  ('os.path.isfile', os_fn('IsFile', 'b')), ('os.path.exists', os_fn('Exists', 'b')),
                  ('os.path.isdir', os_fn('IsDir', 'b')), ('os.access', os_fn('Access', 'b')),
                  ('os.path.join', os_fn('PathJoin'))):
        reg.add_extern(nm, c)
    reg.add_extern('os.stat', OsStat)
    reg.add_extern('os.environ.get', type('OsEnvGet', (EnvGet,), dict(which='os')))
    reg.add_iface('iface:env', 'get', EnvGet)
    reg.add_extern('str.split', StrSplit)
    reg.add(SpawnLaunch)
    reg.add_extern('ptyprocess.PtyProcess.spawn', PtySpawnCall)


