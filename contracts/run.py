"""Contracts for pexpect/run.py (C12).  The child is known through oracles (only in force while run() is verified):
expect() returns any index of its list or raises the unlisted EOF / TIMEOUT with the stream effects that C01/C04
prove for it; send() and callbacks are recorded.

Ghost: R received so far, consumed = text handed back by matches and EOF (in order), pend = pending text,
       nresp = responses performed, sends = strings sent (concatenated, for order), cb = callbacks called."""
from pyvc.types import *
from pyvc.cbase import Contract, LoopSpec, Ret, Raises
from pyvc.spec import *

PTY = 'pexpect.pty_spawn.spawn'
SB = 'pexpect.spawnbase.SpawnBase'
RUN = 'pexpect.run.run'


def interp_false():
    from pyvc.values import VBool
    return VBool(False)


def truthy(x):
    """python truthiness of an opaque callback result (symbolic: the engine's own predicate)"""
    if is_sym(x):
        import z3
        from pyvc.spec import Val
        return z3.Function('truthy', Val, z3.BoolSort())(x)
    return bool(x)


def is_string_val(x, mode):
    if is_sym(x) and str(x.sort()) == 'Val':
        import z3
        from pyvc.spec import Val
        names = ['isinstance_bytes', 'isinstance_str'] if mode == 'b' else ['isinstance_str']
        return Or(*[z3.Function(n, Val, z3.BoolSort())(x) for n in names])
    return is_sym(x) or isinstance(x, (str, bytes))


class SpawnInitOracle(Contract):
    name = PTY + '.__init__'
    only_in = 'run'
    params = ['self', 'command', 'args', 'timeout', 'maxread', 'searchwindowsize', 'logfile', 'cwd', 'env',
              'ignore_sighup', 'echo', 'preexec_fn', 'encoding', 'codec_errors', 'dimensions', 'use_poll']
    defaults = dict(args=None, timeout=30, maxread=2000, searchwindowsize=None, logfile=None, cwd=None, env=None,
                    ignore_sighup=False, echo=True, preexec_fn=None, encoding=None, codec_errors='strict',
                    dimensions=None, use_poll=False)

    def effects(self, v):
        from pyvc.values import VClass, VTuple, VNone, VAny, VStr
        k = v.g['mode']
        h = v.ctx.heap[v.args_v['self'].oid]
        h.closed = False
        st = VClass('bytes' if k == 'b' else 'str')
        h.fields.update(string_type=st, allowed_string_types=VTuple([VClass('bytes'), VClass('str')]) if k == 'b' else VTuple([VClass('str')]),
                        before=VNone(), after=VNone(), exitstatus=VNone(), signalstatus=VNone(), status=VNone(),
                        terminated=interp_false(), timeout=v.args_v['timeout'])
        v.g['spawned'] = v.g.get('spawned', 0) + 1
        v.g['spawn.timeout'] = v.old.timeout
        v.g['spawn.command'] = v.old.command
        v.g['spawn.cwd'], v.g['spawn.env'], v.g['spawn.logfile'] = v.old.cwd, v.old.env, v.old.logfile


class RunExpectOracle(Contract):
    name = SB + '.expect'
    only_in = 'run'
    params = ['self', 'pattern', 'timeout', 'searchwindowsize', 'async_']
    defaults = {'timeout': -1, 'searchwindowsize': -1, 'async_': False}

    def outcomes(self, v):
        pl = v.a.pattern
        EOFc, TOc = ClassConst('EOF'), ClassConst('TIMEOUT')
        outs = []
        has_eof = has_to = False
        n = 0 if pl is None else pl.len
        for k in range(n):
            item = pl.get(k)
            kind = 'eof' if item is EOFc else ('timeout' if item is TOc else 'text')
            has_eof, has_to = has_eof or kind == 'eof', has_to or kind == 'timeout'

            def mk(interp, pre, k=k):
                from pyvc.values import VInt
                return VInt(k)
            outs.append(Ret(T.Int, '%s-%d' % (kind, k), make=mk))
        if not has_eof:
            outs.append(Raises('EOF'))
        if not has_to:
            outs.append(Raises('TIMEOUT'))
        return outs

    def requires(self, v):
        return [('C12:no-more-waiting-after-a-callback-asked-to-stop', Not(v.g['stop_requested'])),
                ('C12:a-string-returned-by-a-callback-is-sent-before-the-next-wait', Not(v.g['owed']))]

    def modifies(self, v, out):
        sp = v.old.self
        k = v.g['mode']
        lab = out.label
        if lab.startswith('text'):
            return [(sp, 'before', TStr(k)), (sp, 'after', TStr(k))]
        return [(sp, 'before', TStr(k)), (sp, 'after', TCls('EOF' if lab.lower().startswith('eof') else 'TIMEOUT'))]

    def effects(self, v):
        g = v.g
        k = g['mode']
        rx = v.draw(TStr(k), 'rx')
        g['R'] = cat(g['R'], rx)
        v.rx = rx
        v.pend0 = g['pend']
        new = v.new.self
        lab = v.label
        g['nexpect'] = g['nexpect'] + 1
        g['last_index'] = int(lab.rsplit('-', 1)[1]) if '-' in lab else None
        g['ended'] = v.raised is not None        # an unlisted EOF / TIMEOUT ends the run
        if g.get('last_was_timeout'):
            v.ctx.path_tags.append(('run-continued-after-a-timeout-event', 'yes'))
        g['last_was_timeout'] = lab.lower().startswith('timeout')       # listed (an event) or not (ends the run)
        if lab.startswith('text'):
            g['pend'] = v.draw(TStr(k), 'pend')
            g['consumed'] = cat(g['consumed'], new.before, new.after)
        elif lab.lower().startswith('eof'):
            g['pend'] = ''
            g['consumed'] = cat(g['consumed'], new.before)
        # TIMEOUT: nothing consumed, pending text grows by what arrived
        else:
            g['pend'] = cat(g['pend'], rx)

    def ensures(self, v):
        new = v.new.self
        lab = v.label
        total = cat(v.pend0, v.rx)
        if lab.startswith('text'):
            return [('C01', eq(cat(new.before, new.after, v.g['pend']), total))]
        return [('C04', eq(new.before, total))]


class RunSendOracle(Contract):
    name = PTY + '.send'
    only_in = 'run'
    params = ['self', 's']

    def outcomes(self, v):
        return [Ret(T.Int)]

    def requires(self, v):
        g = v.g
        k = g['last_index']
        resp = g['responses']
        if k is None or resp is None or k >= len(resp):
            return [('C12:sends-only-in-answer-to-an-event', False)]
        r = resp[k]
        if hasattr(r, '_oid'):         # a callback: what is sent is the string it returned
            return [('C12:sends-the-string-the-callback-returned', same(v.a.s, g['last_cb_result']))]
        return [('C12:sends-the-response-paired-with-the-matched-event', same(v.a.s, r))]

    def effects(self, v):
        v.g['nsend'] = v.g['nsend'] + 1
        v.g['last_sent'] = v.old.s
        v.g['owed'] = False


class RunCloseOracle(Contract):
    name = PTY + '.close'
    only_in = 'run'
    params = ['self', 'force']
    defaults = {'force': True}

    def modifies(self, v, out):
        return [(v.old.self, 'exitstatus', TOpt(T.Int)), (v.old.self, 'signalstatus', TOpt(T.Int))]

    def effects(self, v):
        v.g['closed'] = v.g.get('closed', 0) + 1

    def ensures(self, v):
        # C09/C10 contract of close(): the child is dead and reaped; exactly one of exit code / signal is recorded
        new = v.new.self
        return [('status', And(eq(new.exitstatus, v.g['fate_exit']), eq(new.signalstatus, v.g['fate_sig']))),
                ('exactly-one', Not(Iff(is_none(v.g['fate_exit']), is_none(v.g['fate_sig'])))),
                ('signal-is-positive', Implies(Not(is_none(v.g['fate_sig'])), some(v.g['fate_sig']) >= 1))]


class Callback(Contract):
    """a user callback: called with the state dictionary; may return a string to send, something true to stop,
    or something false to go on"""
    params = ['f', 'state']

    def outcomes(self, v):
        return [Ret(T.Any)]

    def requires(self, v):
        g = v.g
        k = g['last_index']
        resp = g['responses']
        ok = k is not None and resp is not None and k < len(resp) and hasattr(resp[k], '_oid') and resp[k] == v.a.f
        return [('C12:calls-the-callback-paired-with-the-matched-event', ok),
                ('C12:callback-receives-the-state-dictionary', hasattr(v.args_v.get('state'), 'oid'))]

    def effects(self, v):
        g = v.g
        g['ncb'] = g['ncb'] + 1
        g['last_cb_result'] = v.result
        g['stop_requested'] = And(Not(is_string_val(v.result, g['mode'])), truthy(v.result))
        g['owed'] = is_string_val(v.result, g['mode'])       # a string returned by a callback has to be sent


class RunLoop(LoopSpec):
    def vars(self, v):
        return {'child_result_list': TSymList((('t', TStr(v.g['mode'])),), True), 'event_count': T.Int,
                'index': T.Int, 'callback_result': T.Any}

    def ghost(self, v):
        k = v.g['mode']
        return {'R': TStr(k), 'consumed': TStr(k), 'pend': TStr(k), 'nexpect': T.Int, 'nsend': T.Int, 'ncb': T.Int}

    def modifies(self, v):
        k = v.g['mode']
        return [(v.l.child, 'before', TStr(k)), (v.l.child, 'after', T.Any)]

    def invariant(self, v):
        lst = v.l.child_result_list
        return [('C12:collected-is-what-was-consumed', eq(list_join('', lst), v.g['consumed'])),
                ('no-stop-pending', Not(v.g['stop_requested'])),
                ('C12:nothing-owed-to-the-child', Not(v.g['owed'])),
                ('not-ended', Not(v.g['ended'])),
                ('accounting', eq(cat(v.g['consumed'], v.g['pend']), v.g['R'])),
                ('C12:one-response-per-event', And(eq(v.l.event_count, v.g['nexpect']), v.l.event_count >= 0,
                                                   v.g['nsend'] + v.g['ncb'] >= v.g['nexpect'],
                                                   v.g['nsend'] <= v.g['nexpect'], v.g['ncb'] <= v.g['nexpect']))]


class Run(Contract):
    name = RUN
    props = ('C12',)
    context = 'run'
    loops = {0: RunLoop()}
    standin = False

    def shape(self, b):
        mode = b.choice('mode', ['b', 's'])
        b.ghost('mode', mode)
        for g, val in (('R', ''), ('consumed', ''), ('pend', ''), ('nexpect', 0), ('nsend', 0), ('ncb', 0),
                       ('stop_requested', False), ('last_index', None), ('last_cb_result', None), ('owed', False), ('ended', False), ('last_was_timeout', False)):
            b.ghost(g, val)
        from pyvc.engine import to_spec as _ts
        b.ghost('fate_exit', _ts(b.ctx, b.ctx.heap, b.ctx.fresh(TOpt(T.Int), 'fate_exit')) if hasattr(b, 'ctx') else None)
        b.ghost('fate_sig', _ts(b.ctx, b.ctx.heap, b.ctx.fresh(TOpt(T.Int), 'fate_sig')) if hasattr(b, 'ctx') else None)
        ev = b.choice('events', ['none', 'list1', 'list2', 'dict1'])

        def pattern(i):
            c = b.choice('pattern%d' % i, ['text', 'EOF', 'TIMEOUT'])
            return b.str('pattern%d' % i, mode) if c == 'text' else b.cls(c)

        def response(i):
            c = b.choice('response%d' % i, ['string', 'function', 'other'])
            if c == 'string':
                return b.str('response%d' % i, mode)
            if c == 'function':
                return b.obj('callback%d' % i, 'function', sealed=False, isinstance=('types.FunctionType', 'object'))
            return b.const(7)
        if ev == 'none':
            events = b.none()
        elif ev == 'dict1':
            events = b.dict([pattern(0)], [response(0)])
        else:
            events = b.list([b.tuple(pattern(i), response(i)) for i in range(int(ev[-1]))])
        from pyvc.engine import to_spec
        if hasattr(b, 'ctx'):
            if ev == 'none':
                resp = None
            elif ev == 'dict1':
                resp = [to_spec(b.ctx, b.ctx.heap, x) for x in b.ctx.heap[events.oid].fields['vals']]
            else:
                resp = [to_spec(b.ctx, b.ctx.heap, x.items[1]) for x in b.ctx.heap[events.oid].fields['items']]
            b.ghost('responses', resp)
        t = b.choice('timeout', ['default', 'some'])
        return dict(command=b.str('command', 's'), timeout=b.const(-1) if t == 'default' else b.real('timeout'),
                    withexitstatus=b.const(b.choice('withexitstatus', [False, True])), events=events,
                    extra_args=b.none(), logfile=b.any('logfile'), cwd=b.any('cwd'), env=b.any('env'))

    def outcomes(self, v):
        return [Ret(T.Any), Raises('TypeError')]

    def exits(self, v):
        return ('TypeError',)

    def ensures(self, v):
        if getattr(v, 'concrete', False):
            return []
        g = v.g
        out = [('C12:one-child', eq(g.get('spawned', 0), 1)),
               # ... started exactly as asked, whichever way the timeout was given
               ('C12:child-started-with-the-given-command', same(g.get('spawn.command'), v.old.command)),
               ('C12:child-started-in-the-given-directory', same(g.get('spawn.cwd'), v.old.cwd)),
               ('C12:child-started-with-the-given-environment', same(g.get('spawn.env'), v.old.env)),
               ('C12:child-logs-to-the-given-file', same(g.get('spawn.logfile'), v.old.logfile)),
               # "up to the point it stops (EOF, timeout, ...)": the child waits with the timeout run() was given;
               # -1 means the class default of 30 s
               ('C12:child-waits-with-the-given-timeout',
                eq(g.get('spawn.timeout'), ite(eq(v.old.timeout, -1), 30, v.old.timeout)))]
        if v.raised is not None:
            return out + [('C12:typeerror-only-for-an-unusable-response', True)]
        res = v.result
        import z3
        wes = z3.is_true(z3.simplify(v.old.withexitstatus)) if is_sym(v.old.withexitstatus) else bool(v.old.withexitstatus)
        text = res[0] if wes else res
        # the whole output up to the stopping point, each piece once: what matches and EOF handed back, plus (when the
        # stop was a TIMEOUT that consumed nothing) the text still pending
        out.append(('C12:complete-output-each-piece-once',
                    Or(eq(text, g['consumed']), eq(text, cat(g['consumed'], g['pend'])))))
        out.append(('C12:nothing-dropped-at-eof-or-timeout', Implies(Not(eq(text, g['consumed'])), eq(text, g['R']))))
        # a TIMEOUT consumes nothing: when the run stops on one - the exception, or a TIMEOUT event whose callback says
        # stop - the text still pending is part of "the whole output up to the point it stops"
        if g.get('last_was_timeout'):
            out.append(('C12:pending-text-returned-when-the-run-stops-on-a-timeout', eq(text, cat(g['consumed'], g['pend']))))
        out.append(('C12:stops-only-at-eof-timeout-or-when-a-callback-says-so', Or(g['ended'], g['stop_requested'])))
        out.append(('C12:every-string-a-callback-returned-was-sent', Not(g['owed'])))
        if wes:
            out += [('C09+C12:true-exit-status', eq(res[1], g['fate_exit'])), ('C12:closed-before-reporting', eq(g.get('closed', 0), 1))]
        return out


def register(reg):
    for c in (SpawnInitOracle, RunExpectOracle, RunSendOracle, RunCloseOracle, Run):
        reg.add(c)
    reg.add_extern('callback', Callback)
