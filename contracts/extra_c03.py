"""C03: the lemma `incremental_find` (pyvc/spec.py lemma_incremental_find) is proved here, on every run, from the
definition of Find, and cross-checked against CPython's str.find on all short strings (bounded, labelled so).

Definition of Find(T, s, a) for a >= 0 (= T.find(s, a), 'the lowest index ... such that', Python library reference):
   sound:    Find == -1  or  (Find >= a and s occurs in T at Find)
   minimal:  for every p >= a at which s occurs in T:  Find != -1 and Find <= p
'occurs at p' is 0 <= p, p + |s| <= |T| and T[p:p+|s|] == s.  The proof instantiates `minimal` at the three positions the
argument needs; the solver sees a quantifier-free formula."""
import itertools, time


def lemma_obligation():
    import z3
    from pyvc import spec as S
    P, w, s = z3.Strings('P w s')
    fresh = z3.Int('fresh')
    Len = z3.Length

    def occ(T, x, p):
        return z3.And(0 <= p, p + Len(x) <= Len(T), z3.SubString(T, p, Len(x)) == x)

    def sound(ft):
        T, x, a = ft.arg(0), ft.arg(1), ft.arg(2)
        return z3.Or(ft == -1, z3.And(ft >= a, occ(T, x, ft)))

    def minimal(ft, p):
        T, x, a = ft.arg(0), ft.arg(1), ft.arg(2)
        return z3.Implies(z3.And(a <= p, occ(T, x, p)), z3.And(ft != -1, ft <= p))

    m, d = Len(s), Len(P) - Len(w)
    Pold = z3.SubString(P, 0, Len(P) - fresh)
    g = S.find_from(P, s, 0)
    f = S.find_from(w, s, -(fresh + m))
    fo = S.find_from(Pold, s, 0)
    defs = [sound(g), sound(f), sound(fo), minimal(fo, g), minimal(f, g - d), minimal(g, f + d)]
    goal = S.lemma_incremental_find(P, w, s, fresh)
    return defs, goal


def run(tier, repo, here, pyrun):
    from pyvc.solver import discharge
    out = {'obligations': 0, 'discharged': 0, 'violations': [], 'trusted': [], 'notes': {}, 'by_backend': {}}
    defs, goal = lemma_obligation()
    t0 = time.time()
    v = discharge(defs, goal, 60.0 if tier == 'quick' else 300.0, True, ('cvc5', 'z3api', 'z3old'))
    out['obligations'] += 1
    out['notes']['lemma.incremental_find'] = {'status': v.status, 'backend': v.backend, 'seconds': round(time.time() - t0, 2), 'tried': v.tried}
    if v.status == 'proved':
        out['discharged'] += 1
        out['by_backend'][v.backend] = out['by_backend'].get(v.backend, 0) + 1
    else:
        out['undecided'] = ['lemma.incremental_find (%s)' % v.status]
    # bounded cross-check of the lemma AND of the definition against the real str.find (never counted as proved)
    from pyvc import spec as S
    n = 4 if tier == 'quick' else 5
    evals = 0
    bad = None
    strs = [''.join(t) for k in range(n + 1) for t in itertools.product('ab', repeat=k)]
    pats = [''.join(t) for k in range(3) for t in itertools.product('ab', repeat=k)]
    for P in strs:
        for x in pats:
            fnd = P.find(x)
            ok_def = (fnd == -1 or P[fnd:fnd + len(x)] == x) and all(not (P[p:p + len(x)] == x and p + len(x) <= len(P)) for p in range(0, fnd if fnd >= 0 else len(P) + 1))
            if not ok_def:
                bad = bad or ('definition of Find', P, x)
            for cut in range(len(P) + 1):
                w = P[cut:]
                for fresh in range(len(P) + 1):
                    evals += 1
                    if not S.lemma_incremental_find(P, w, x, fresh):
                        bad = bad or ('lemma', P, w, x, fresh)
    out['notes']['lemma.incremental_find.cpython-cross-check'] = {'label': 'bounded (not counted as proved)', 'evaluations': evals,
                                                                   'bounds': 'texts over {a,b} up to length %d, strings up to length 2, every suffix and fresh length' % n}
    if bad:
        out['fault'] = 'the lemma or the definition of Find disagrees with CPython: %r' % (bad,)
    out['trusted'].append('str.find(s, start) returns the lowest index >= start at which s occurs, or -1 (definition of Find; cross-checked against CPython on short strings)')
    return out
