"""Contracts for pexpect/pxssh.py (C17): the login dialogue with `expect` as a non-deterministic oracle.

Ghost `dlg`: the dialogue so far, a list of events ('expect', result), ('send', text), ('close',), ... in order.
login() is loop-free after its option handling, so all paths are enumerated (complete, not bounded)."""
from pyvc.types import *
from pyvc.cbase import Contract, LoopSpec, Ret, Raises
from pyvc.spec import *

PX = 'pexpect.pxssh.pxssh'
PTY = 'pexpect.pty_spawn.spawn'
SB = 'pexpect.spawnbase.SpawnBase'


def dlg(v):
    return v.g['dlg']


def log_event(v, *ev):
    v.g['dlg'] = list(v.g['dlg']) + [tuple(ev)]


class ExpectOracle(Contract):
    """self.expect(list, timeout=...): any index of the list, or the EOF / TIMEOUT exception when that marker is
    not listed (C04).  One outcome per list position, so the result is concrete on each path."""
    name = SB + '.expect'
    receiver = (PX,)
    params = ['self', 'pattern', 'timeout', 'searchwindowsize', 'async_']
    defaults = {'timeout': -1, 'searchwindowsize': -1, 'async_': False}

    def outcomes(self, v):
        pl = v.a.pattern
        n = pl.len
        outs = []
        EOFc, TOc = ClassConst('EOF'), ClassConst('TIMEOUT')
        has_eof = has_to = False
        for k in range(n):
            item = pl.get(k)
            has_eof = has_eof or item is EOFc
            has_to = has_to or item is TOc

            def mk(interp, pre, k=k):
                from pyvc.values import VInt
                return VInt(k)
            outs.append(Ret(T.Int, 'index-%d' % k, make=mk))
        if not has_eof:
            outs.append(Raises('EOF'))
        if not has_to:
            outs.append(Raises('TIMEOUT'))
        return outs

    def modifies(self, v, out):
        sp = v.old.self
        return [(sp, 'before', T.Any), (sp, 'after', T.Any), (sp, 'match', T.Any)]

    def effects(self, v):
        t = v.old.timeout
        log_event(v, 'expect', v.label, t)
        if 'patterns0' not in v.g:
            pl = v.old.pattern
            v.g['patterns0'] = [pl.get(k) for k in range(pl.len)]       # the dialogue table of the first wait


class SendlineOracle(Contract):
    name = PTY + '.sendline'
    receiver = (PX,)
    params = ['self', 's']
    defaults = {'s': ''}

    def outcomes(self, v):
        return [Ret(T.Int)]

    def effects(self, v):
        log_event(v, 'send', v.old.s)


class CloseOracle(Contract):
    name = PTY + '.close'
    receiver = (PX,)
    params = ['self', 'force']
    defaults = {'force': True}

    def effects(self, v):
        log_event(v, 'close')


class SpawnOracle(Contract):
    name = PTY + '._spawn'
    receiver = (PX,)
    params = ['self', 'command', 'args', 'preexec_fn', 'dimensions']
    defaults = {'args': None, 'preexec_fn': None, 'dimensions': None}

    def effects(self, v):
        log_event(v, 'spawn', v.old.command)


class SyncOracle(Contract):
    name = PX + '.sync_original_prompt'
    params = ['self', 'sync_multiplier']
    defaults = {'sync_multiplier': 1.0}

    def outcomes(self, v):
        def mk(val):
            def f(interp, pre):
                from pyvc.values import VBool
                return VBool(val)
            return f
        return [Ret(T.Bool, 'synced', make=mk(True)), Ret(T.Bool, 'not-synced', make=mk(False))]

    def effects(self, v):
        log_event(v, 'sync', v.label == 'synced')


class TryReadPromptOracle(Contract):
    """try_read_prompt(multiplier): whatever arrived within the pacing timeouts (possibly nothing)"""
    name = PX + '.try_read_prompt'
    only_in = 'sync'
    params = ['self', 'timeout_multiplier']

    def outcomes(self, v):
        return [Ret(T.Text), Raises('TIMEOUT')]

    def effects(self, v):
        if v.raised is None:
            v.g['trp'] = list(v.g['trp']) + [v.result]


class LevenshteinOracle(Contract):
    name = PX + '.levenshtein_distance'
    only_in = 'sync'
    params = ['self', 'a', 'b']

    def outcomes(self, v):
        return [Ret(T.Int)]

    def ensures(self, v):
        return [('distance-nonneg', v.result >= 0)]


class SyncOriginalPrompt(Contract):
    """sync_original_prompt(): reports "synchronised" only if the shell answered the second <enter> with something -
    a session that prints nothing is never taken for a prompt (C17: success only at a prompt)."""
    name = PX + '.sync_original_prompt'
    props = ('C17',)
    standin = False
    only_in = 'sync'
    context = 'sync'

    def shape(self, b):
        me = b.obj('self', PX, sealed=False, string_type=b.cls('str'), before=b.any('before0'), after=b.any('after0'), match=b.any('match0'))
        b.ghost('dlg', [])
        b.ghost('trp', [])
        b.ghost('clk', b.real('clk0'))
        return dict(self=me, sync_multiplier=b.real('sync_multiplier'))

    def requires(self, v):
        return [('multiplier-positive', v.a.sync_multiplier > 0)]

    def exits(self, v):
        return ('TIMEOUT',)

    def ensures(self, v):
        if v.raised is not None:
            return []
        answers = v.g['trp']
        sends = [e for e in v.g['dlg'] if e[0] == 'send']
        out = [('C17:presses-enter-before-each-reading', len(sends) >= 3)]
        if len(answers) >= 2:
            a = answers[-2]          # the answer to the second <enter> (the last but one reading)
            out.append(('C17:synchronised-only-if-the-shell-answered', Implies(v.result, length(a) >= 1)))
        else:
            out.append(('C17:synchronised-only-if-the-shell-answered', Not(v.result)))
        return out


class UniquePromptOracle(SyncOracle):
    name = PX + '.set_unique_prompt'
    params = ['self']
    defaults = {}

    def effects(self, v):
        log_event(v, 'unique-prompt', v.label == 'synced')


PASSWORD_IDX, YES_IDX, PROMPT_IDX, TIMEOUT_IDX = 2, 0, 1, 5


class Login(Contract):
    name = PX + '.login'
    props = ('C17',)
    standin = False

    def shape(self, b):
        opts = b.dict([], []) if hasattr(b, 'dict') else {}
        me = b.obj('self', PX, sealed=False, options=opts, force_password=b.const(False), SSH_OPTS=b.const(" -o 'PubkeyAuthentication=no'"),
                   debug_command_string=b.const(False), before=b.any('before0'), after=b.any('after0'), match=b.any('match0'),
                   PROMPT=b.const(r"\[PEXPECT\][\$\#] "))
        b.ghost('dlg', [])
        local = b.choice('spawn_local_ssh', [True, False])
        return dict(self=me, server=b.str('server', 's'), username=b.str('username', 's'), password=b.str('password', 's'),
                    terminal_type=b.str('terminal_type', 's'), login_timeout=b.real('login_timeout'),
                    auto_prompt_reset=b.const(b.choice('auto_prompt_reset', [True, False])),
                    sync_original_prompt=b.const(b.choice('sync_original_prompt', [True, False])),
                    spawn_local_ssh=b.const(local), quiet=b.const(True), check_local_ip=b.const(True))

    def requires(self, v):
        return [('finite-login-timeout', v.a.login_timeout >= 0),
                ('distinguishable-answers', And(Not(eq(v.a.password, 'yes')), Not(eq(v.a.terminal_type, 'yes')),
                                                Not(eq(v.a.password, v.a.terminal_type))))]

    def outcomes(self, v):
        return [Ret(T.Bool), Raises('ExceptionPxssh'), Raises('EOF'), Raises('TIMEOUT')]

    def exits(self, v):
        return ('ExceptionPxssh', 'EOF', 'TIMEOUT')          # C17: every other dialogue ends in a pexpect exception

    def ensures(self, v):
        if getattr(v, 'concrete', False):
            return []
        d = dlg(v)
        pw, yes = v.old.password, 'yes'
        out = []
        sends_pw = [i for i, e in enumerate(d) if e[0] == 'send' and e[1] is pw]
        sends_yes = [i for i, e in enumerate(d) if e[0] == 'send' and (eq(e[1], 'yes') is True)]

        def prev_expect(i):
            return d[i - 1] if i > 0 and d[i - 1][0] == 'expect' else None
        out.append(('C17:password-at-most-once', len(sends_pw) <= 1))
        out.append(('C17:password-only-as-the-direct-answer-to-a-password-prompt',
                    all(prev_expect(i) is not None and prev_expect(i)[1] == 'index-%d' % PASSWORD_IDX for i in sends_pw)))
        out.append(('C17:yes-only-to-the-host-key-question',
                    all(prev_expect(i) is not None and prev_expect(i)[1] == 'index-%d' % YES_IDX for i in sends_yes)))
        expects = [e for e in d if e[0] == 'expect']
        # what counts as "a password prompt" / "the host-key question" when the caller does not say otherwise is part
        # of login()'s documented signature; an over-permissive default answers something else with the secret
        p0 = v.g.get('patterns0')
        if p0 is not None and len(p0) > PASSWORD_IDX:
            out.append(('C17:default-password-prompt-pattern-is-the-documented-one',
                        eq(p0[PASSWORD_IDX], r'(?i)(?:password:)|(?:passphrase for key)') is True))
            out.append(('C17:host-key-question-pattern-is-the-documented-one',
                        eq(p0[YES_IDX], '(?i)are you sure you want to continue connecting') is True))
        # the first "terminal type?" question is answered with the terminal type (asked a second time, login() gives up)
        tt = [i for i, e in enumerate(d) if e[0] == 'expect' and e[1] == 'index-4']
        if tt:
            i = tt[0]
            out.append(('C17:terminal-type-question-is-answered',
                        i + 1 < len(d) and d[i + 1][0] == 'send' and d[i + 1][1] is v.old.terminal_type))
        # every wait has a finite timeout: the login timeout or the instance default (never None)
        out.append(('C17:every-wait-is-bounded', all(e[2] is not None for e in expects)))
        if v.raised is None:
            last = expects[-1][1] if expects else None
            sync_ok = any(e[0] == 'sync' and e[1] for e in d)
            unique_ok = any(e[0] == 'unique-prompt' and e[1] for e in d)
            reached_prompt = last == 'index-%d' % PROMPT_IDX
            guessed = last == 'index-%d' % TIMEOUT_IDX and (sync_ok or unique_ok)
            out += [('C17:returns-true', eq(v.result, True)),
                    ('C17:success-only-at-a-prompt', reached_prompt or guessed),
                    ('C17:unique-prompt-set-when-reset-is-enabled', (not self._flag(v, 'auto_prompt_reset')) or unique_ok),
                    ('C17:not-closed-on-success', not any(e[0] == 'close' for e in d))]
        elif v.raised == 'ExceptionPxssh':
            out.append(('C17:closed-before-raising', any(e[0] == 'close' for e in d)))
        return out

    def _flag(self, v, name):
        import z3
        x = getattr(v.old, name)
        return z3.is_true(z3.simplify(x)) if is_sym(x) else bool(x)


class SetUniquePrompt(Contract):
    name = PX + '.set_unique_prompt'
    receiver = ('verify',)
    props = ('C17',)
    standin = False

    def shape(self, b):
        me = b.obj('self', PX, sealed=False, PROMPT=b.const('P'), PROMPT_SET_SH=b.const('sh'), PROMPT_SET_CSH=b.const('csh'),
                   PROMPT_SET_ZSH=b.const('zsh'), before=b.any('before0'), after=b.any('after0'), match=b.any('match0'))
        b.ghost('dlg', [])
        return dict(self=me)

    def outcomes(self, v):
        return [Ret(T.Bool), Raises('EOF')]

    def exits(self, v):
        return ('EOF',)

    def ensures(self, v):
        if getattr(v, 'concrete', False) or v.raised is not None:
            return []
        d = dlg(v)
        expects = [e for e in d if e[0] == 'expect']
        last = expects[-1][1] if expects else None
        import z3
        r = z3.is_true(z3.simplify(v.result)) if is_sym(v.result) else bool(v.result)
        # exactly one unique prompt per wait: every command that makes the shell print the new prompt is followed
        # directly by the wait that consumes it (anything sent in between would leave a stale prompt in the stream,
        # and prompt() would lag one command behind), and PROMPT_COMMAND is cleared before the first of them
        me = v.old.self
        setters = (me.PROMPT_SET_SH, me.PROMPT_SET_CSH, me.PROMPT_SET_ZSH)
        is_setter = lambda e: e[0] == 'send' and any(eq(e[1], x) is True for x in setters)
        setter_pos = [i for i, e in enumerate(d) if is_setter(e)]
        unset_pos = [i for i, e in enumerate(d) if e[0] == 'send' and eq(e[1], 'unset PROMPT_COMMAND') is True]
        return [('C17:true-only-after-the-unique-prompt-was-seen', (not r) or last == 'index-1'),
                ('C17:false-only-after-all-three-shell-flavours-timed-out', r or len(expects) == 3),
                ('C17:every-wait-is-bounded', all(e[2] is not None for e in expects)),
                ('C17:each-prompt-change-is-followed-directly-by-its-wait',
                 all(i + 1 < len(d) and d[i + 1][0] == 'expect' for i in setter_pos)),
                ('C17:prompt-command-cleared-before-the-prompt-is-changed',
                 len(unset_pos) == 1 and all(unset_pos[0] < i for i in setter_pos)),
                ('C17:nothing-else-is-sent', all(is_setter(e) or i in unset_pos for i, e in enumerate(d) if e[0] == 'send'))]


class Prompt(Contract):
    name = PX + '.prompt'
    props = ('C17',)
    standin = False

    def shape(self, b):
        me = b.obj('self', PX, sealed=False, PROMPT=b.const('P'), timeout=b.opt('self.timeout', lambda: b.real('self.timeout')),
                   before=b.any('before0'), after=b.any('after0'), match=b.any('match0'))
        b.ghost('dlg', [])
        t = b.choice('timeout', ['default', 'some'])
        return dict(self=me, timeout=b.const(-1) if t == 'default' else b.real('timeout'))

    def outcomes(self, v):
        return [Ret(T.Bool), Raises('EOF')]

    def exits(self, v):
        return ('EOF',)

    def ensures(self, v):
        if getattr(v, 'concrete', False) or v.raised is not None:
            return []
        d = dlg(v)
        expects = [e for e in d if e[0] == 'expect']
        import z3
        r = z3.is_true(z3.simplify(v.result)) if is_sym(v.result) else bool(v.result)
        return [('C17:one-wait-for-the-prompt', len(expects) == 1),
                ('C17:true-iff-the-prompt-matched', r == (expects[0][1] == 'index-0'))]


def register(reg):
    for c in (ExpectOracle, SendlineOracle, CloseOracle, SpawnOracle, SyncOracle, UniquePromptOracle, Login, SetUniquePrompt, Prompt,
              TryReadPromptOracle, LevenshteinOracle, SyncOriginalPrompt):
        reg.add(c)
