"""Contracts for pexpect/screen.py (C19; the representation invariant also carries C18).

Coordinates in the API are 1-based; the grid view is 0-based: at(s, r, c) = s.w.cell(r-1, c-1).
Reference semantics = each method's docstring / ANSI comment restated over the grid, plus
"nothing else changes" (DESIGN.md C19 table)."""
from pyvc.types import *
from pyvc.cbase import Contract, LoopSpec, Ret, Raises
from pyvc.spec import *

SCR = 'pexpect.screen.screen'
FIELDS = ('rows', 'cols', 'cur_r', 'cur_c', 'cur_saved_r', 'cur_saved_c', 'scroll_row_start', 'scroll_row_end')
BLANK = ' '


def cl(x, n):
    """constrain(x, 1, n): coordinates outside the screen act as the nearest edge"""
    return smin(smax(x, 1), n)


def TGridCell():
    return T('GridCell')


def allocated(s, i, g):
    """ghost allocator: every row id in use is below nextid (symbolic mode only)"""
    nid = g.get('nextid') if hasattr(g, 'get') else None
    if nid is None or not is_sym(nid):
        return True
    return s.w.rowid(i) < nid


def INV_scr(s, g=None):
    rows, cols, w = s.rows, s.cols, s.w
    out = [
        ('dims', And(rows >= 1, cols >= 1, eq(w.len, rows))),
        ('row-length', forall(0, rows, lambda i: eq(w.rowlen(i), cols))),
        ('rows-distinct', injective_rows(w, rows)),
        ('cells-are-single-characters', forall2(0, rows, 0, cols, lambda i, j: eq(length(w.cell(i, j)), 1))),
        ('cursor-on-screen', And(1 <= s.cur_r, s.cur_r <= rows, 1 <= s.cur_c, s.cur_c <= cols)),
        ('scroll-region-on-screen', And(1 <= s.scroll_row_start, s.scroll_row_start <= rows,
                                        1 <= s.scroll_row_end, s.scroll_row_end <= rows)),
    ]
    if g is not None:
        out.append(('rows-allocated', forall(0, rows, lambda i: allocated(s, i, g))))
    return out


def inv(prefix, s, g=None):
    return [('%s.%s' % (prefix, k), f) for k, f in INV_scr(s, g)]


def fields_same(old, new, but=()):
    return And(*[eq(getattr(new, f), getattr(old, f)) for f in FIELDS if f not in but])


def rows_same(old, new):
    """the grid still consists of the same row objects, in the same order"""
    return forall(0, old.rows, lambda i: And(eq(new.w.rowid(i), old.w.rowid(i)), eq(new.w.rowlen(i), old.w.rowlen(i))))


def cells(old, new, written, value):
    """forall (i, j) on the screen: cell'(i,j) == value(i,j) if written(i,j) else cell(i,j)"""
    return forall2(0, old.rows, 0, old.cols,
                   lambda i, j: eq(new.w.cell(i, j), ite(written(i, j), value(i, j), old.w.cell(i, j))))


def grid_same(old, new):
    return cells(old, new, lambda i, j: False, lambda i, j: BLANK)


def screen_shape(b, cls=SCR, extra=None):
    rows, cols = b.int('rows'), b.int('cols')
    f = dict(rows=rows, cols=cols, cur_r=b.int('cur_r'), cur_c=b.int('cur_c'),
             cur_saved_r=b.int('cur_saved_r'), cur_saved_c=b.int('cur_saved_c'),
             scroll_row_start=b.int('scroll_row_start'), scroll_row_end=b.int('scroll_row_end'),
             w=b.grid('w', rows, cols), encoding=b.const('latin-1'), encoding_errors=b.const('replace'),
             decoder=b.any('decoder'))
    if extra:
        f.update(extra)
    b.ghost('nextid', b.int('nextid'))
    return b.obj('self', cls, sealed=False, **f)


class ScreenContract(Contract):
    """Common part: requires the representation invariant, ensures it, grid rows stay the same objects."""
    props = ('C18', 'C19')
    cursor_only = False          # True: the method changes no cell
    changes = ()                 # fields the method may change
    params_int = ()

    def shape(self, b):
        d = dict(self=screen_shape(b))
        for p in self.params_int:
            d[p] = b.int(p)
        return d

    def requires(self, v):
        return inv('inv', v.a.self, v.g)

    def modifies(self, v, out):
        s = v.old.self
        m = [(s, f, T.Int) for f in self.changes]
        if not self.cursor_only:
            m.append((s.w, 'cell', TGridCell()))
        return m

    def base(self, v):
        old, new = v.old.self, v.new.self
        out = inv('inv', new, v.g)
        out.append(('C19:fields-unchanged', fields_same(old, new, self.changes)))
        out.append(('rows-same', rows_same(old, new)))
        if self.cursor_only:
            out.append(('C19:no-cell-changes', grid_same(old, new)))
        return out

    def ensures(self, v):
        return self.base(v) + self.post(v)

    def post(self, v):
        return []

    def exits(self, v):
        return ()               # C18: never raises


def text_char(b, name='ch'):
    return b.str(name, 's')


# ---- cells ----------------------------------------------------------------------------------------------
class PutAbs(ScreenContract):
    name = SCR + '.put_abs'

    def shape(self, b):
        return dict(self=screen_shape(b), r=b.int('r'), c=b.int('c'), ch=text_char(b))

    def requires(self, v):
        return inv('inv', v.a.self, v.g) + [('non-empty-character', length(v.a.ch) >= 1)]

    def post(self, v):
        old, new = v.old.self, v.new.self
        r, c = cl(v.old.r, old.rows), cl(v.old.c, old.cols)
        ch0 = sub(v.old.ch, 0, 1)
        return [('C19:writes-exactly-one-cell',
                 cells(old, new, lambda i, j: And(eq(i, r - 1), eq(j, c - 1)), lambda i, j: ch0))]


class Put(PutAbs):
    name = SCR + '.put'

    def shape(self, b):
        return dict(self=screen_shape(b), ch=text_char(b))

    def post(self, v):
        old, new = v.old.self, v.new.self
        ch0 = sub(v.old.ch, 0, 1)
        return [('C19:writes-cell-under-cursor',
                 cells(old, new, lambda i, j: And(eq(i, old.cur_r - 1), eq(j, old.cur_c - 1)), lambda i, j: ch0))]


class GetAbs(ScreenContract):
    name = SCR + '.get_abs'
    cursor_only = True
    params_int = ('r', 'c')

    def outcomes(self, v):
        return [Ret(T.Text)]

    def post(self, v):
        old = v.old.self
        return [('C19:returns-the-cell', eq(v.result, old.w.cell(cl(v.old.r, old.rows) - 1, cl(v.old.c, old.cols) - 1)))]


class Get(ScreenContract):
    name = SCR + '.get'
    cursor_only = True

    def outcomes(self, v):
        return [Ret(T.Text)]

    def post(self, v):
        old = v.old.self
        ok = v.result is not None
        return [('C19:returns-cell-under-cursor', And(ok, eq(v.result, old.w.cell(old.cur_r - 1, old.cur_c - 1))) if ok else False)]


def in_rect(i, j, rs, re, cs, ce):
    """0-based (i, j) inside the 1-based inclusive rectangle"""
    return And(rs - 1 <= i, i <= re - 1, cs - 1 <= j, j <= ce - 1)


class FillRegionOuter(LoopSpec):
    vars = {'r': T.Int, 'c': T.Int}

    def modifies(self, v):
        return [(v.l.self.w, 'cell', TGridCell())]

    def invariant(self, v):
        old, cur = v.old.self, v.l.self
        rs, re, cs, ce, r = v.l.rs, v.l.re, v.l.cs, v.l.ce, v.l._i0
        ch0 = sub(v.l.ch, 0, 1)
        return [('filled-so-far', cells(old, cur, lambda i, j: in_rect(i, j, rs, r - 1, cs, ce), lambda i, j: ch0)),
                ('fields', fields_same(old, cur)), ('rows-same', rows_same(old, cur))] + inv('inv', cur, v.g)


class FillRegionInner(LoopSpec):
    vars = {'c': T.Int}

    def modifies(self, v):
        return [(v.l.self.w, 'cell', TGridCell())]

    def invariant(self, v):
        old, cur = v.old.self, v.l.self
        rs, re, cs, ce, r, c = v.l.rs, v.l.re, v.l.cs, v.l.ce, v.l.r, v.l._i1
        ch0 = sub(v.l.ch, 0, 1)
        return [('filled-so-far', cells(old, cur, lambda i, j: Or(in_rect(i, j, rs, r - 1, cs, ce),
                                                                   And(eq(i, r - 1), cs - 1 <= j, j <= c - 2)),
                                        lambda i, j: ch0)),
                ('fields', fields_same(old, cur)), ('rows-same', rows_same(old, cur))] + inv('inv', cur, v.g)


def ordered_rect(old, rs, cs, re, ce):
    a, b = cl(rs, old.rows), cl(re, old.rows)
    c, d = cl(cs, old.cols), cl(ce, old.cols)
    return smin(a, b), smax(a, b), smin(c, d), smax(c, d)


class FillRegion(ScreenContract):
    name = SCR + '.fill_region'
    loops = {0: FillRegionOuter(), 1: FillRegionInner()}

    def shape(self, b):
        return dict(self=screen_shape(b), rs=b.int('rs'), cs=b.int('cs'), re=b.int('re'), ce=b.int('ce'), ch=text_char(b))

    def requires(self, v):
        return inv('inv', v.a.self, v.g) + [('non-empty-character', length(v.a.ch) >= 1)]

    def post(self, v):
        old, new = v.old.self, v.new.self
        r1, r2, c1, c2 = ordered_rect(old, v.old.rs, v.old.cs, v.old.re, v.old.ce)
        ch0 = sub(v.old.ch, 0, 1)
        return [('C19:fills-exactly-the-rectangle',
                 cells(old, new, lambda i, j: in_rect(i, j, r1, r2, c1, c2), lambda i, j: ch0))]


class Fill(ScreenContract):
    name = SCR + '.fill'

    def shape(self, b):
        return dict(self=screen_shape(b), ch=text_char(b))

    def requires(self, v):
        return inv('inv', v.a.self, v.g) + [('non-empty-character', length(v.a.ch) >= 1)]

    def post(self, v):
        old, new = v.old.self, v.new.self
        ch0 = sub(v.old.ch, 0, 1)
        return [('C19:fills-every-cell', cells(old, new, lambda i, j: True, lambda i, j: ch0))]


class InsertAbsLoop(LoopSpec):
    vars = {'ci': T.Int}

    def modifies(self, v):
        return [(v.l.self.w, 'cell', TGridCell())]

    def invariant(self, v):
        old, cur = v.old.self, v.l.self
        r, c, k = v.l.r, v.l.c, v.l._i0          # k columns shifted so far: cols, cols-1, ..., cols-k+1
        cols = old.cols
        return [('shifted-so-far', forall2(0, old.rows, 0, cols, lambda i, j: eq(
            cur.w.cell(i, j), ite(And(eq(i, r - 1), cols - k <= j, j <= cols - 1, j >= 1), old.w.cell(i, j - 1), old.w.cell(i, j))))),
                ('bounds', And(1 <= r, r <= old.rows, 1 <= c, c <= cols, eq(v.l.ci, cols - k) if False else True)),
                ('fields', fields_same(old, cur)), ('rows-same', rows_same(old, cur))] + inv('inv', cur, v.g)


class InsertAbs(ScreenContract):
    name = SCR + '.insert_abs'
    loops = {0: InsertAbsLoop()}

    def shape(self, b):
        return dict(self=screen_shape(b), r=b.int('r'), c=b.int('c'), ch=text_char(b))

    def requires(self, v):
        return inv('inv', v.a.self, v.g) + [('non-empty-character', length(v.a.ch) >= 1)]

    def post(self, v):
        old, new = v.old.self, v.new.self
        r, c = cl(v.old.r, old.rows), cl(v.old.c, old.cols)
        ch0 = sub(v.old.ch, 0, 1)
        return [('C19:shifts-right-and-inserts', forall2(0, old.rows, 0, old.cols, lambda i, j: eq(
            new.w.cell(i, j),
            ite(And(eq(i, r - 1), eq(j, c - 1)), ch0,
                ite(And(eq(i, r - 1), j >= c), old.w.cell(i, j - 1), old.w.cell(i, j))))))]


class Insert(ScreenContract):
    name = SCR + '.insert'

    def shape(self, b):
        return dict(self=screen_shape(b), ch=text_char(b))

    def requires(self, v):
        return inv('inv', v.a.self, v.g) + [('non-empty-character', length(v.a.ch) >= 1)]

    def post(self, v):
        old, new = v.old.self, v.new.self
        r, c = old.cur_r, old.cur_c
        ch0 = sub(v.old.ch, 0, 1)
        return [('C19:inserts-at-cursor', forall2(0, old.rows, 0, old.cols, lambda i, j: eq(
            new.w.cell(i, j),
            ite(And(eq(i, r - 1), eq(j, c - 1)), ch0,
                ite(And(eq(i, r - 1), j >= c), old.w.cell(i, j - 1), old.w.cell(i, j))))))]


# ---- cursor -----------------------------------------------------------------------------------------------
class CursorOnly(ScreenContract):
    cursor_only = True
    changes = ('cur_r', 'cur_c')

    def post(self, v):
        old, new = v.old.self, v.new.self
        r, c = self.target(v, old)
        return [('C19:cursor', And(eq(new.cur_r, cl(r, old.rows)), eq(new.cur_c, cl(c, old.cols))))]


def cursor_contract(meth, params, target, defaults=None):
    class C(CursorOnly):
        name = SCR + '.' + meth
        params_int = params

        def target(self, v, old):
            return target(v, old)
    C.__name__ = 'Cursor_' + meth
    return C


CURSOR = [
    cursor_contract('cursor_constrain', (), lambda v, o: (o.cur_r, o.cur_c)),
    cursor_contract('cursor_home', ('r', 'c'), lambda v, o: (v.old.r, v.old.c)),
    cursor_contract('cursor_force_position', ('r', 'c'), lambda v, o: (v.old.r, v.old.c)),
    cursor_contract('cursor_back', ('count',), lambda v, o: (o.cur_r, o.cur_c - v.old.count)),
    cursor_contract('cursor_forward', ('count',), lambda v, o: (o.cur_r, o.cur_c + v.old.count)),
    cursor_contract('cursor_up', ('count',), lambda v, o: (o.cur_r - v.old.count, o.cur_c)),
    cursor_contract('cursor_down', ('count',), lambda v, o: (o.cur_r + v.old.count, o.cur_c)),
    cursor_contract('cr', (), lambda v, o: (o.cur_r, 1)),
    cursor_contract('cursor_unsave', (), lambda v, o: (o.cur_saved_r, o.cur_saved_c)),
    cursor_contract('cursor_restore_attrs', (), lambda v, o: (o.cur_saved_r, o.cur_saved_c)),
]


class CursorConstrainLoose(CursorOnly):
    """cursor_constrain is the one method that may be entered with the cursor off the screen."""
    name = SCR + '.cursor_constrain'

    def requires(self, v):
        return [(k, f) for k, f in inv('inv', v.a.self, v.g) if not k.endswith('cursor-on-screen')]

    def target(self, v, old):
        return old.cur_r, old.cur_c


class CursorSave(ScreenContract):
    name = SCR + '.cursor_save_attrs'
    cursor_only = True
    changes = ('cur_saved_r', 'cur_saved_c')

    def post(self, v):
        old, new = v.old.self, v.new.self
        return [('C19:saved', And(eq(new.cur_saved_r, old.cur_r), eq(new.cur_saved_c, old.cur_c)))]


class CursorSave2(CursorSave):
    name = SCR + '.cursor_save'


# ---- scrolling ------------------------------------------------------------------------------------------
class ScrollConstrain(ScreenContract):
    """May be entered with the scroll fields anywhere: this is the method that brings them back."""
    name = SCR + '.scroll_constrain'
    cursor_only = True
    changes = ('scroll_row_start', 'scroll_row_end')

    def requires(self, v):
        return [(k, f) for k, f in inv('inv', v.a.self, v.g) if not k.endswith('scroll-region-on-screen')]

    def post(self, v):
        old, new = v.old.self, v.new.self
        return [('C19:region-clamped', And(eq(new.scroll_row_start, cl(old.scroll_row_start, old.rows)),
                                           eq(new.scroll_row_end, cl(old.scroll_row_end, old.rows))))]


class ScrollScreen(ScreenContract):
    name = SCR + '.scroll_screen'
    cursor_only = True
    changes = ('scroll_row_start', 'scroll_row_end')

    def post(self, v):
        old, new = v.old.self, v.new.self
        return [('C19:whole-screen', And(eq(new.scroll_row_start, 1), eq(new.scroll_row_end, old.rows)))]


class ScrollScreenRows(ScreenContract):
    name = SCR + '.scroll_screen_rows'
    cursor_only = True
    changes = ('scroll_row_start', 'scroll_row_end')
    params_int = ('rs', 're')

    def post(self, v):
        old, new = v.old.self, v.new.self
        return [('C19:region-clamped', And(eq(new.scroll_row_start, cl(v.old.rs, old.rows)),
                                           eq(new.scroll_row_end, cl(v.old.re, old.rows))))]


class ScrollUp(ScreenContract):
    """rows start..end-1 := old rows start+1..end; row `end` and the rows outside the region unchanged
    (the documentation is silent on the vacated line).  Row objects are fresh copies (ownership)."""
    name = SCR + '.scroll_up'

    def modifies(self, v, out):
        s = v.old.self
        return [(s.w, 'cell', TGridCell()), (s.w, 'rowid', T('GridIds')), (s.w, 'rowlen', T('GridIds'))]

    def base(self, v):
        old, new = v.old.self, v.new.self
        return inv('inv', new, v.g) + [('C19:fields-unchanged', fields_same(old, new))]

    def post(self, v):
        old, new = v.old.self, v.new.self
        s, e = old.scroll_row_start, old.scroll_row_end
        return [('C19:region-moves-up', forall2(0, old.rows, 0, old.cols, lambda i, j: eq(
            new.w.cell(i, j), ite(And(s - 1 <= i, i < e - 1), old.w.cell(i + 1, j), old.w.cell(i, j)))))]


class ScrollDown(ScrollUp):
    name = SCR + '.scroll_down'

    def post(self, v):
        old, new = v.old.self, v.new.self
        s, e = old.scroll_row_start, old.scroll_row_end
        return [('C19:region-moves-down', forall2(0, old.rows, 0, old.cols, lambda i, j: eq(
            new.w.cell(i, j), ite(And(s - 1 < i, i <= e - 1), old.w.cell(i - 1, j), old.w.cell(i, j)))))]


# ---- erasing ------------------------------------------------------------------------------------------------
def erase_contract(meth, region):
    class C(ScreenContract):
        name = SCR + '.' + meth

        def post(self, v):
            old, new = v.old.self, v.new.self
            return [('C19:erases-exactly', cells(old, new, lambda i, j: region(old, i + 1, j + 1), lambda i, j: BLANK))]
    C.__name__ = 'Erase_' + meth
    return C


ERASE = [
    erase_contract('erase_end_of_line', lambda o, r, c: And(eq(r, o.cur_r), c >= o.cur_c)),
    erase_contract('erase_start_of_line', lambda o, r, c: And(eq(r, o.cur_r), c <= o.cur_c)),
    erase_contract('erase_line', lambda o, r, c: eq(r, o.cur_r)),
    # "from the cursor down/up": rest of the cursor line plus every row below / above it
    erase_contract('erase_down', lambda o, r, c: Or(And(eq(r, o.cur_r), c >= o.cur_c), r > o.cur_r)),
    erase_contract('erase_up', lambda o, r, c: Or(And(eq(r, o.cur_r), c <= o.cur_c), r < o.cur_r)),
    erase_contract('erase_screen', lambda o, r, c: True),
]


class Lf(ScreenContract):
    """"moves the cursor down with scrolling": below the last row the region scrolls up and the cursor row is blanked"""
    name = SCR + '.lf'
    changes = ('cur_r',)

    def modifies(self, v, out):
        s = v.old.self
        return [(s, 'cur_r', T.Int), (s.w, 'cell', TGridCell()), (s.w, 'rowid', T('GridIds')), (s.w, 'rowlen', T('GridIds'))]

    def base(self, v):
        old, new = v.old.self, v.new.self
        return inv('inv', new, v.g) + [('C19:fields-unchanged', fields_same(old, new, ('cur_r',)))]

    def post(self, v):
        old, new = v.old.self, v.new.self
        s, e = old.scroll_row_start, old.scroll_row_end
        last = eq(old.cur_r, old.rows)
        scrolled = lambda i, j: ite(eq(i, old.rows - 1), BLANK,
                                    ite(And(s - 1 <= i, i < e - 1), old.w.cell(i + 1, j), old.w.cell(i, j)))
        return [('C19:cursor-down', eq(new.cur_r, ite(last, old.rows, old.cur_r + 1))),
                ('C19:scrolls-at-bottom', forall2(0, old.rows, 0, old.cols, lambda i, j: eq(
                    new.w.cell(i, j), ite(last, scrolled(i, j), old.w.cell(i, j)))))]


class Crlf(Lf):
    name = SCR + '.crlf'
    changes = ('cur_r', 'cur_c')

    def modifies(self, v, out):
        return Lf.modifies(self, v, out) + [(v.old.self, 'cur_c', T.Int)]

    def base(self, v):
        old, new = v.old.self, v.new.self
        return inv('inv', new, v.g) + [('C19:fields-unchanged', fields_same(old, new, ('cur_r', 'cur_c')))]

    def post(self, v):
        return Lf.post(self, v) + [('C19:carriage-return', eq(v.new.self.cur_c, 1))]


class Newline(Crlf):
    name = SCR + '.newline'


class CursorUpReverse(ScreenContract):
    """documentation silent on the direction at the top row: invariant + frame of the rows outside the region only"""
    name = SCR + '.cursor_up_reverse'
    changes = ('cur_r',)

    def modifies(self, v, out):
        return Lf.modifies(self, v, out)

    def base(self, v):
        old, new = v.old.self, v.new.self
        return inv('inv', new, v.g) + [('C19:fields-unchanged', fields_same(old, new, ('cur_r',)))]

    def post(self, v):
        old, new = v.old.self, v.new.self
        s, e = old.scroll_row_start, old.scroll_row_end
        return [('C19:cursor-up', eq(new.cur_r, smax(old.cur_r - 1, 1))),
                ('C19:outside-region-unchanged', forall2(0, old.rows, 0, old.cols, lambda i, j: Implies(
                    Or(Not(eq(old.cur_r, 1)), i < s - 1, i > e - 1), eq(new.w.cell(i, j), old.w.cell(i, j)))))]


# ---- construction and read-back ---------------------------------------------------------------------------
class Init(Contract):
    name = SCR + '.__init__'
    props = ('C18', 'C19')

    def shape(self, b):
        me = b.obj('self', SCR, sealed=False)
        return dict(self=me, r=b.int('r'), c=b.int('c'))

    def requires(self, v):
        return [('dims', And(v.a.r >= 1, v.a.c >= 1))]

    def exits(self, v):
        return ()

    def ensures(self, v):
        new = v.new.self
        return inv('inv', new, v.g) + [
            ('C19:blank', forall2(0, v.old.r, 0, v.old.c, lambda i, j: eq(new.w.cell(i, j), BLANK))),
            ('C19:size', And(eq(new.rows, v.old.r), eq(new.cols, v.old.c))),
            ('C19:cursor-home', And(eq(new.cur_r, 1), eq(new.cur_c, 1), eq(new.cur_saved_r, 1), eq(new.cur_saved_c, 1))),
            ('C19:scroll-whole-screen', And(eq(new.scroll_row_start, 1), eq(new.scroll_row_end, v.old.r)))]


class Constrain(Contract):
    name = 'pexpect.screen.constrain'
    props = ('C18', 'C19')

    def shape(self, b):
        return dict(n=b.int('n'), min=b.int('min'), max=b.int('max'))

    def requires(self, v):
        return [('bounds-ordered', v.a.min <= v.a.max)]

    def outcomes(self, v):
        return [Ret(T.Int)]

    def exits(self, v):
        return ()

    def ensures(self, v):
        n, lo, hi = v.old.n, v.old.min, v.old.max
        return [('C19:nearest-edge', eq(v.result, ite(n < lo, lo, ite(n > hi, hi, n))))]


# ---- read-back accessors -----------------------------------------------------------------------------------
def row_seg(w, i, a, b):
    """cells a..b (0-based, inclusive) of row i as one string"""
    if is_sym(i) or is_sym(a) or is_sym(b) or not hasattr(w, '_rows'):
        import z3
        from pyvc.grid import CellArr
        F = z3.Function('RowSeg', CellArr, z3.IntSort(), z3.IntSort(), z3.IntSort(), z3.StringSort())
        iz, az, bz = [x if is_sym(x) else z3.IntVal(x) for x in (i, a, b)]
        return F(w._h.fields['cell'], iz, az, bz)
    return ''.join(w.cell(i, j) for j in range(a, b + 1))


class GetRegionOuter(LoopSpec):
    vars = {'r': T.Int, 'c': T.Int, 'line': T.Text, 'ch': T.Text, 'sc': TSymList((('l', T.Text),), True)}

    def invariant(self, v):
        s = v.old.self
        sc, r = v.l.sc, v.l._i0
        rs, cs, ce = v.l.rs, v.l.cs, v.l.ce
        return [('lines-count', eq(sc.len, r - rs)),
                ('lines-so-far', forall(0, r - rs, lambda k: eq(sc.get(k), row_seg(s.w, rs - 1 + k, cs - 1, ce - 1)))),
                ('bounds', And(1 <= rs, rs <= r, cs >= 1, ce <= s.cols, cs <= ce))]


class GetRegionInner(LoopSpec):
    vars = {'c': T.Int, 'line': T.Text, 'ch': T.Text}

    def invariant(self, v):
        s = v.old.self
        return [('line-so-far', eq(v.l.line, row_seg(s.w, v.l.r - 1, v.l.cs - 1, v.l._i1 - 2)))]


class GetRegion(ScreenContract):
    name = SCR + '.get_region'
    cursor_only = True
    props = ('C19',)
    loops = {0: GetRegionOuter(), 1: GetRegionInner()}

    def shape(self, b):
        return dict(self=screen_shape(b), rs=b.int('rs'), cs=b.int('cs'), re=b.int('re'), ce=b.int('ce'))

    def outcomes(self, v):
        return [Ret(TSymList((('l', T.Text),), True))]

    def post(self, v):
        old = v.old.self
        r1, r2, c1, c2 = ordered_rect(old, v.old.rs, v.old.cs, v.old.re, v.old.ce)
        res = v.result
        return [('C19:one-line-per-row-of-the-rectangle', eq(res.len, r2 - r1 + 1)),
                ('C19:each-line-is-the-row-segment',
                 forall(0, r2 - r1 + 1, lambda k: eq(res.get(k), row_seg(old.w, r1 - 1 + k, c1 - 1, c2 - 1))))]


def grid_text(w, sep, n):
    """rows 0..n-1, each as a string of all its cells, joined by sep"""
    if hasattr(w, '_rows'):
        return sep.join(''.join(row) for row in w._rows[:n])
    import z3
    from pyvc.grid import CellArr, IntArr
    F = z3.Function('GridText', z3.StringSort(), CellArr, IntArr, z3.IntSort(), z3.StringSort())
    return F(z3.StringVal(sep), w._h.fields['cell'], w._h.fields['rowlen'], w._h.fields['len'].t)


class Dump(ScreenContract):
    name = SCR + '.dump'
    cursor_only = True
    props = ('C19',)

    def outcomes(self, v):
        return [Ret(T.Text)]

    def post(self, v):
        old = v.old.self
        return [('C19:all-rows-concatenated', eq(v.result, grid_text(old.w, '', old.rows)))]


class Unicode(ScreenContract):
    name = SCR + '._unicode'
    cursor_only = True
    props = ('C19',)

    def outcomes(self, v):
        return [Ret(T.Text)]

    def post(self, v):
        old = v.old.self
        return [('C19:rows-joined-by-newlines', eq(v.result, grid_text(old.w, '\n', old.rows)))]


def register(reg):
    cs = [Constrain, PutAbs, Put, GetAbs, Get, FillRegion, Fill, InsertAbs, Insert, CursorSave, CursorSave2,
          ScrollConstrain, ScrollScreen, ScrollScreenRows, ScrollUp, ScrollDown, Lf, Crlf, Newline, CursorUpReverse, Init,
          GetRegion, Dump, Unicode]
    cs += [c for c in CURSOR if c.name != SCR + '.cursor_constrain'] + [CursorConstrainLoose] + ERASE
    for c in cs:
        reg.add(c)


ALL = None


