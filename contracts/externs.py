"""Assumed contracts of library functions (DESIGN.md section 4 / 5.4).  Never verified; every use is
listed in the evidence under trusted_base."""
from pyvc.types import *
from pyvc.cbase import Contract, Ret, Raises
from pyvc.spec import *


class TimeTime(Contract):
    """time.time() returns the ghost clock; reading the clock costs nothing."""
    params = []

    def outcomes(self, v):
        return [Ret(T.Real)]

    def ensures(self, v):
        return [('clock', eq(v.result, v.g['clk']))]


class TimeSleep(Contract):
    """time.sleep(d) advances the ghost clock by exactly d (d >= 0)."""
    params = ['d']

    def requires(self, v):
        return [('nonneg', v.a.d >= 0)]

    def effects(self, v):
        v.g['clk'] = v.g['clk'] + v.old.d


def register(reg):
    reg.add_extern('time.time', TimeTime)
    reg.add_extern('time.sleep', TimeSleep)
