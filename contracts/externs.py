"""Assumed contracts of library functions (DESIGN.md section 4 / 5.4).  Never verified; every use is
listed in the evidence under trusted_base."""
from pyvc.types import *
from pyvc.cbase import Contract, Ret, Raises
from pyvc.spec import *


class TimeTime(Contract):
    """time.time() returns the ghost clock; reading the clock costs nothing."""
    params = []

    def outcomes(self, v):
        return [Ret(T.Real)]

    def ensures(self, v):
        return [('clock', eq(v.result, v.g['clk']))]


class TimeSleep(Contract):
    """time.sleep(d) advances the ghost clock by exactly d (d >= 0)."""
    params = ['d']

    def requires(self, v):
        return [('nonneg', v.a.d >= 0)]

    def effects(self, v):
        v.g['clk'] = v.g['clk'] + v.old.d


def register(reg):
    reg.add_extern('time.time', TimeTime)
    reg.add_extern('time.sleep', TimeSleep)
    register_re(reg)
    register_codecs(reg)
    register_int(reg)


class ReSearch(Contract):
    """re.Pattern.search(buffer, pos): None, or a match object m with pos <= m.start() <= m.end() <= len(buffer).
    ReFind(r, buffer, pos) names the selected start (-1 = none); which occurrence the engine selects is the
    regex engine's business (assumed: leftmost from pos, per the re documentation)."""
    params = ['r', 'buffer', 'pos', 'endpos']
    defaults = {'pos': 0, 'endpos': None}

    def outcomes(self, v):
        def mk(interp, pre):
            from pyvc.values import VAny
            import z3
            buf = pre.a.buffer if pre.a.endpos is None else sub(pre.a.buffer, 0, pre.a.endpos)
            return VAny(ReMatch(pre.a.r, buf, pre.a.pos if is_sym(pre.a.pos) else z3.IntVal(pre.a.pos)), notnone=True)
        return [Ret(T.NoneT, 'nomatch'), Ret(T.Any, 'match', make=mk)]

    def ensures(self, v):
        r, buf, pos = v.old.r, v.old.buffer, v.old.pos
        if v.old.endpos is not None:
            buf = sub(buf, 0, v.old.endpos)          # the search sees only buffer[:endpos]
        f = re_find(r, buf, pos)
        if v.label == 'nomatch':
            return [('none', eq(f, -1))]
        m = v.result
        return [('span', And(eq(re_match_start(m), f), pos <= f, 0 <= f, f <= re_match_end(m),
                             re_match_end(m) <= length(buf)))]


class MatchStart(Contract):
    params = ['m']

    def outcomes(self, v):
        return [Ret(T.Int)]

    def ensures(self, v):
        return [('start', eq(v.result, re_match_start(v.old.m)))]


class MatchEnd(Contract):
    params = ['m']

    def outcomes(self, v):
        return [Ret(T.Int)]

    def ensures(self, v):
        return [('end', eq(v.result, re_match_end(v.old.m)))]


class ReCompileFn(Contract):
    """re.compile(pattern, flags): the compiled pattern is a function of (text, string type, flags).  Assumed: the
    pattern is a valid regular expression (re.error is not modelled)."""
    params = ['pattern', 'flags']
    defaults = {'flags': 0}

    def outcomes(self, v):
        def mk(interp, pre):
            from pyvc.values import VAny
            p = pre.args_v['pattern']
            return VAny(re_compile(p.t, p.kind == 'b', pre.a.flags), notnone=True, kindtag='regex')
        return [Ret(T.Any, make=mk)]


def register_re(reg):
    reg.add_extern('re.compile', ReCompileFn)
    reg.add_extern('opaque.search', ReSearch)
    reg.add_extern('opaque.start', MatchStart)
    reg.add_extern('opaque.end', MatchEnd)


class OpaqueFactory(Contract):
    """codecs.getincrementaldecoder(enc) / calling the result: some non-None object (the codec machinery)."""
    params = ['a']

    def outcomes(self, v):
        def mk(interp, pre):
            from pyvc.values import VAny
            from pyvc.spec import Val
            return VAny(interp.ctx._const('codec', Val), notnone=True)
        return [Ret(T.Any, make=mk)]


def register_codecs(reg):
    reg.add_extern('codecs.getincrementaldecoder', OpaqueFactory)
    reg.add_extern('codecs.getincrementalencoder', OpaqueFactory)
    reg.add_extern('opaque.__call__', OpaqueFactory)


class IntOfString(Contract):
    """int(s) for a string: s must consist of digits and stay below CPython's int-string conversion limit
    (sys.get_int_max_str_digits() == 4300 by default); otherwise ValueError."""
    params = ['s']

    def requires(self, v):
        return [('digits-only', is_digits(v.a.s)), ('within-int-digit-limit', length(v.a.s) <= 4300)]

    def outcomes(self, v):
        return [Ret(T.Int)]

    def ensures(self, v):
        return [('value', And(eq(v.result, int_of(v.old.s)), v.result >= 0))]


def register_int(reg):
    reg.add_extern('builtins.int', IntOfString)
