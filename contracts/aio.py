"""Contracts for pexpect/_async_w_await.py (C14, C07, C11): the asyncio protocol drives the same Expecter methods
with the same data as the blocking loop.

Ghost: fut = 'pending' | ('result', value) | ('exception', class) for the waiter's future; paused = reading paused;
       plus the decoder / log ghosts of transports.py."""
from pyvc.types import *
from pyvc.cbase import Contract, LoopSpec, Ret, Raises
from pyvc.spec import *
from .common import *
from .transports import log_file, LOGS, logs_post
from .expect import pend_of, sbuf_of, W_ok, K_cover

PW = 'pexpect._async_w_await.PatternWaiter'
EXPECT_ASYNC = 'pexpect._async_w_await.expect_async'
E = 'pexpect.expect.Expecter'


class DecoderReset(Contract):
    """incremental decoder .reset(): throws away the bytes of a character that is still incomplete"""
    params = ['self']

    def requires(self, v):
        return [('C07:decoder-state-is-never-discarded-mid-stream', False)]


class FutDone(Contract):
    params = ['self']

    def outcomes(self, v):
        def mk(interp, pre):
            from pyvc.values import VBool
            return VBool(pre.g['fut'] != 'pending')
        return [Ret(T.Bool, make=mk)]


class FutSetResult(Contract):
    params = ['self', 'value']

    def requires(self, v):
        return [('future-still-pending', v.g['fut'] == 'pending')]

    def effects(self, v):
        v.g['fut'] = ('result', v.old.value)


class FutSetException(Contract):
    params = ['self', 'exc']

    def requires(self, v):
        return [('future-still-pending', v.g['fut'] == 'pending')]

    def effects(self, v):
        v.g['fut'] = ('exception', v.args_v['exc'])


class PauseReading(Contract):
    params = ['self']

    def effects(self, v):
        v.g['paused'] = True


class ResumeReading(Contract):
    params = ['self']

    def effects(self, v):
        v.g['paused'] = False


def waiter_shape(b, fut_state):
    kind = b.choice('mode', ['b', 's'])
    f = dict(_before=b.io('pend', kind), _buffer=b.io('sbuf', kind),
             buffer_type=b.cls('BytesIO' if kind == 'b' else 'StringIO'), string_type=b.cls('bytes' if kind == 'b' else 'str'),
             before=b.any('before0'), after=b.any('after0'), match=b.any('match0'), match_index=b.any('match_index0'),
             encoding=b.none() if kind == 'b' else b.const('utf-8'), flag_eof=b.bool('flag_eof'),
             async_pw_transport=b.any('apt0'))
    for lf in LOGS:
        f[lf] = log_file(b, lf, kind) if lf != 'logfile_send' else b.none()
    if kind == 'b':
        f['_decoder'] = b.obj('nullcoder', 'pexpect.spawnbase._NullCoder', sealed=True)
    else:
        f['_decoder'] = b.obj('decoder', 'iface:decoder', sealed=True)
    sp = b.obj('spawn', SPAWNBASE, sealed=False, **f)
    se = searcher_shape(b)
    ex = b.obj('expecter', E, sealed=True, spawn=sp, searcher=se, searchwindowsize=b.opt('W', lambda: b.int('W')),
               lookback=b.opt('lookback', lambda: b.int('lookback')))
    me = b.obj('self', PW, sealed=False, expecter=ex, fut=b.obj('fut', 'iface:future', sealed=True),
               transport=b.obj('transport', 'iface:transport', sealed=True))
    e = b'' if (kind == 'b' and hasattr(b, 'source')) else ''
    for g, val in (('dec_in', ''), ('dec_out', e), ('ndec', 0), ('paused', False)):
        b.ghost(g, val)
    for lf in LOGS:
        b.ghost('log:' + lf, e)
        b.ghost('unflushed:' + lf, False)
    b.ghost('fut', fut_state)
    return me, sp, ex, kind


class DataReceived(Contract):
    name = PW + '.data_received'
    props = ('C14', 'C07', 'C11')
    standin = False

    def shape(self, b):
        st = b.choice('future', ['pending', 'done'])
        me, sp, ex, kind = waiter_shape(b, 'pending' if st == 'pending' else ('result', 0))
        return dict(self=me, data=b.str('data', 'b'))

    def requires(self, v):
        ex = v.a.self.expecter
        out = [('inv', INV_buf(ex.spawn)), ('W-domain', W_ok(ex.searchwindowsize)),
               ('L-domain', True if ex.lookback is None else ex.lookback >= 0)]
        if v.g['fut'] == 'pending':
            # protocol invariant while a call is outstanding (established by expect_async before it waits)
            out.append(('C03:buffer-covers', K_cover(ex.spawn, ex.searchwindowsize, ex.lookback)))
        return out

    def exits(self, v):
        return ()

    def ensures(self, v):
        if getattr(v, 'concrete', False):
            return []
        old, new = v.old.self.expecter.spawn, v.new.self.expecter.spawn
        g = v.g
        data = v.old.data
        text = data if old.encoding is None else sub(g['dec_out'], length(v.g0['dec_out']), length(g['dec_out']))
        out = [('inv', INV_buf(new))]
        if old.encoding is not None:
            out += [('C07:chunk-goes-to-the-instance-decoder-once', And(eq(g['dec_in'], cat(v.g0['dec_in'], data)),
                                                                       eq(g['ndec'], v.g0['ndec'] + 1)))]
        out += logs_post(v, old, 'read', text)
        was_done = v.g0['fut'] != 'pending'
        if was_done:
            # no call is outstanding: the text is kept for the next call, in both buffers, nothing is lost
            out += [('C14:kept-for-the-next-call', And(eq(pend_of(new), cat(pend_of(old), text)),
                                                       eq(sbuf_of(new), cat(sbuf_of(old), text)))),
                    ('C14:outcome-of-the-finished-call-untouched', And(g['fut'] == v.g0['fut'], same(new.before, old.before),
                                                                       same(new.after, old.after), same(new.match, old.match)))]
        else:
            fut = g['fut']
            if fut == 'pending':
                out += [('C03:buffer-still-covers', K_cover(new, v.old.self.expecter.searchwindowsize, v.old.self.expecter.lookback)),
                        ('C14:no-match-yet-means-the-text-is-pending', eq(pend_of(new), cat(pend_of(old), text))),
                        ('C14:still-reading', Not(g['paused']) if is_sym(g['paused']) else not g['paused'])]
            elif fut[0] == 'result':
                # exactly what the blocking loop does with this chunk: new_data(text) found a match
                out += [('C14:same-accounting-as-the-blocking-call',
                         eq(cat(new.before, new.after, pend_of(new)), cat(pend_of(old), text))),
                        ('C14:result-is-the-match-index', And(eq(fut[1], new.match_index), fut[1] >= 0)),
                        ('C14:reading-paused-until-the-next-call', g['paused'] is True or (is_sym(g['paused']) and g['paused']))]
            else:
                out += [('C14:error-is-delivered-to-the-awaiter', And(is_none(new.after), is_none(new.match)))]
        return out


class EofReceived(Contract):
    name = PW + '.eof_received'
    props = ('C14', 'C04')
    standin = False
    inline = True       # verified on its own; connection_lost() sees its (loop-free) body, not this contract

    def shape(self, b):
        me, sp, ex, kind = waiter_shape(b, 'pending')
        return dict(self=me)

    def requires(self, v):
        return [('inv', INV_buf(v.a.self.expecter.spawn))]

    def exits(self, v):
        return ()

    def ensures(self, v):
        if getattr(v, 'concrete', False):
            return []
        ex = v.old.self.expecter
        old, new = ex.spawn, v.new.self.expecter.spawn
        fut = v.g['fut']
        EOFc = ClassConst('EOF')
        out = [('inv', INV_buf(new)), ('C04:eof-remembered', eq(new.flag_eof, True)),
               ('C14:same-outcome-as-the-blocking-call', And(eq(new.before, pend_of(old)), eq(pend_of(new), ''), eq(new.after, EOFc))),
               ('C14:awaiter-is-woken', fut != 'pending')]
        if fut != 'pending':
            if fut[0] == 'result':
                out.append(('C04:index-of-EOF-when-listed', And(ex.searcher.eof_index >= 0, eq(fut[1], ex.searcher.eof_index))))
            else:
                out.append(('C04:raises-EOF-when-unlisted', Not(ex.searcher.eof_index >= 0)))
        return out


class ConnectionLost(Contract):
    name = PW + '.connection_lost'
    props = ('C14', 'C04')
    standin = False

    def shape(self, b):
        me, sp, ex, kind = waiter_shape(b, 'pending')
        c = b.choice('exc', ['none', 'EIO', 'other-oserror', 'other'])
        if c == 'none':
            exc = b.none()
        else:
            import errno
            cls = 'OSError' if c != 'other' else 'ValueError'
            exc = b.ctx.new_exc(cls, []) if hasattr(b, 'ctx') else None
            if hasattr(b, 'ctx'):
                h = b.ctx.heap[exc.oid]
                no = b.const(errno.EIO) if c == 'EIO' else b.int('errno')
                h.fields['args'] = b.tuple(no)
                h.fields['errno'] = no
                if c == 'other-oserror':
                    b.ctx.assume(no.t != errno.EIO)
        return dict(self=me, exc=exc)

    def requires(self, v):
        return [('inv', INV_buf(v.a.self.expecter.spawn))]

    def exits(self, v):
        return ()

    def ensures(self, v):
        if getattr(v, 'concrete', False):
            return []
        fut = v.g['fut']
        exc = v.old.exc
        old, new = v.old.self.expecter.spawn, v.new.self.expecter.spawn
        out = [('inv', INV_buf(new))]
        if exc is None:
            out.append(('C14:clean-close-wakes-nobody', fut == 'pending'))
        else:
            out.append(('C14:awaiter-is-woken', fut != 'pending'))
        return out


class WaitFor(Contract):
    """await asyncio.wait_for(fut, timeout): the future's outcome, or asyncio.TimeoutError after `timeout`"""
    params = ['fut', 'timeout']

    def outcomes(self, v):
        outs = [Ret(T.Int, 'result'), Raises('EOF'), Raises('OSError', 'error')]
        if v.a.timeout is not None:
            outs.append(Raises('asyncio.TimeoutError', 'timeout'))
        return outs

    def requires(self, v):
        out = [('C14:pending-text-is-searched-before-waiting', v.g.get('searched_pending', False) is True)]
        if v.g.get('expecter_obj') is not None:
            # C03: while the call waits, the search buffer still covers what new_data will need (protocol invariant
            # assumed by data_received, established here)
            ex = v.view(v.g['expecter_obj'])
            out.append(('C03:buffer-covers-while-waiting', K_cover(ex.spawn, ex.searchwindowsize, ex.lookback)))
        return out

    def effects(self, v):
        v.g['waits'] = v.g.get('waits', 0) + 1
        v.g['wait_timeout'] = v.old.timeout


class ConnectReadPipe(Contract):
    params = ['self', 'factory', 'pipe']

    def outcomes(self, v):
        def mk(interp, pre):
            from pyvc.values import VTuple, HObj
            ctx = interp.ctx
            tr = ctx.alloc(HObj('iface:transport', 'obj', {}, closed=True))
            # the protocol object is what the factory returns: call it
            pw = interp.call(pre.args_v['factory'], [], {}, None)
            return VTuple([tr, pw])
        return [Ret(T.Any, make=mk)]

    def effects(self, v):
        v.g['connected'] = v.g.get('connected', 0) + 1


class LoopGetter(Contract):
    params = []

    def outcomes(self, v):
        def mk(interp, pre):
            from pyvc.values import HObj
            return interp.ctx.alloc(HObj('iface:loop', 'obj', {}, closed=True))
        return [Ret(T.Any, make=mk)]


class ExpectAsync(Contract):
    name = EXPECT_ASYNC
    props = ('C14', 'C05')
    standin = False

    def shape(self, b):
        me, sp, ex, kind = waiter_shape(b, 'pending')
        first = b.choice('first-await', [True, False])
        if hasattr(b, 'ctx'):
            h = b.ctx.heap[sp.oid]
            h.fields['async_pw_transport'] = b.none() if first else b.tuple(me, b.obj('transport2', 'iface:transport', sealed=True))
        b.ghost('waits', 0)
        b.ghost('connected', 0)
        return dict(expecter=ex, timeout=b.opt('timeout', lambda: b.real('timeout')))

    def requires(self, v):
        ex = v.a.expecter
        return [('inv', INV_buf(ex.spawn)), ('W-domain', W_ok(ex.searchwindowsize)),
                ('L-domain', True if ex.lookback is None else ex.lookback >= 0)]

    def outcomes(self, v):
        return [Ret(T.Int), Raises('EOF'), Raises('TIMEOUT'), Raises('OSError')]

    def exits(self, v):
        return ('EOF', 'TIMEOUT', 'OSError')

    def ensures(self, v):
        if getattr(v, 'concrete', False):
            return []
        g = v.g
        old, new = v.old.expecter.spawn, v.new.expecter.spawn
        TOc = ClassConst('TIMEOUT')
        out = [('inv', INV_buf(new))]
        is_to = eq(new.after, TOc) is True
        if eq(g['waits'], 0) is True:
            # decided from the text that was already pending, exactly like the first step of the blocking loop
            out.append(('C14:pending-text-is-searched-first', And(v.raised is None, not is_to)))
        else:
            out += [('C14:awaits-with-the-given-timeout', eq(g['wait_timeout'], v.old.timeout)),
                    ('C14:one-wait', eq(g['waits'], 1))]
        if is_to:
            out += [('C05:timeout-only-with-a-finite-timeout', v.old.timeout is not None),
                    ('C14:reading-paused-after-a-timeout', g['paused'] is True),
                    ('C14:timeout-consumes-nothing', eq(pend_of(new), pend_of(old)))]
        return out


def register(reg):
    reg.add_iface('iface:future', 'done', FutDone)
    reg.add_iface('iface:future', 'set_result', FutSetResult)
    reg.add_iface('iface:future', 'set_exception', FutSetException)
    reg.add_iface('iface:transport', 'pause_reading', PauseReading)
    reg.add_iface('iface:transport', 'resume_reading', ResumeReading)
    reg.add(DataReceived)
    reg.add_iface('iface:decoder', 'reset', DecoderReset)
    for c in (EofReceived, ConnectionLost, ExpectAsync):
        reg.add(c)
    reg.add_extern('asyncio.wait_for', WaitFor)
    reg.add_extern('pexpect._async_w_await._loop_getter', LoopGetter)
    try:
        from pyvc.values import VFunc
        reg.globals[('pexpect._async_w_await', '_loop_getter')] = lambda ctx: VFunc('extern', name='pexpect._async_w_await._loop_getter')
    except ImportError:          # concrete harness: no solver, nothing symbolic to resolve
        pass
    reg.add_iface('iface:loop', 'connect_read_pipe', ConnectReadPipe)


