"""Contracts for pexpect/replwrap.py and the awaited twin in _async_w_await.py (C16): the wrapper protocol.

What is proved: run_command sends the first line, then for every further line waits for a prompt and sends the
line, then waits for the final prompt; the value returned is the concatenation, in order, of what each of those
waits reported as `before`; on a continuation prompt it interrupts the REPL, waits once more (1 s) and raises
ValueError.  Under the ASSUMED REPL contract ("after a complete input the REPL prints the command's output, which
does not contain the prompt, then exactly one prompt") that value is the command's output.  Whether real bash /
python honour that contract is outside every contract in /repo."""
from pyvc.types import *
from pyvc.cbase import Contract, LoopSpec, Ret, Raises
from pyvc.spec import *

RW = 'pexpect.replwrap.REPLWrapper'
PTY = 'pexpect.pty_spawn.spawn'
SB = 'pexpect.spawnbase.SpawnBase'
ASYNC = 'pexpect._async_w_await.repl_run_command_async'


class WantLines:
    """what run_command has to send, as a VALUE: the lines of the command (as str.splitlines gave them) plus a final
    empty line when the command ends in a newline - independent of which list object the code keeps them in"""
    def __init__(self, base, nl):
        self.base, self.nl = base, nl
        self.len = base.len + ite(nl, 1, 0)

    def get(self, k):
        import z3
        return z3.If(k < self.base.len, self.base.get(k), z3.StringVal(''))


def lines_of(v, new=False):
    """the list of lines the command was split into, in its current state (the code may append to it)"""
    x = v.g['cmdlines']
    if isinstance(x, WantLines):
        return x
    if hasattr(x, 'oid'):
        return v.view(x, new=new)
    return x


class PromptOracle(Contract):
    """child.expect_exact([prompt, continuation_prompt], timeout=...): index 0 or 1 (or TIMEOUT / EOF); sets before"""
    name = SB + '.expect_exact'
    only_in = 'repl'
    params = ['self', 'pattern_list', 'timeout', 'searchwindowsize', 'async_']
    defaults = {'timeout': -1, 'searchwindowsize': -1, 'async_': False}

    def outcomes(self, v):
        def mk(k):
            def f(interp, pre):
                from pyvc.values import VInt
                return VInt(k)
            return f
        return [Ret(T.Int, 'prompt', make=mk(0)), Ret(T.Int, 'continuation', make=mk(1)), Raises('TIMEOUT'), Raises('EOF')]

    def requires(self, v):
        pl = v.a.pattern_list
        out = [('C16:waits-for-prompt-or-continuation', And(pl.len == 2, eq(pl.get(0), v.g['prompt']),
                                                             eq(pl.get(1), v.g['continuation'])))]
        if 'want_timeout' in v.g and v.g['kills'] == 0:
            # every wait of the command itself uses the timeout the caller gave (None = wait indefinitely, 0 = poll);
            # only the re-synchronisation after an interrupt has its own (1 s)
            out.append(('C16:waits-with-the-timeout-it-was-given', same(v.a.timeout, v.g['want_timeout'])))
        return out

    def modifies(self, v, out):
        return [(v.old.self, 'before', T.Text)] if out.kind == 'ret' else []

    def effects(self, v):
        g = v.g
        g['nexpect'] = g['nexpect'] + 1
        g['last'] = 'expect'
        g['last_timeout'] = v.old.timeout
        g['last_async'] = v.old.async_
        if v.raised is None:
            g['outputs'] = cat(g['outputs'], v.new.self.before)


class LineOracle(Contract):
    name = PTY + '.sendline'
    only_in = 'repl'
    params = ['self', 's']
    defaults = {'s': ''}

    def outcomes(self, v):
        return [Ret(T.Int)]

    def requires(self, v):
        g = v.g
        lines = lines_of(v)
        n = g['nsend']
        out = [('C16:sends-the-lines-in-order', And(n < lines.len, eq(v.a.s, lines.get(n))))]
        # every line after the first is sent only right after a prompt was seen
        out.append(('C16:waits-for-a-prompt-before-each-further-line', Or(eq(n, 0), g['last'] == 'expect')))
        return out

    def effects(self, v):
        v.g['nsend'] = v.g['nsend'] + 1
        v.g['last'] = 'send'


class KillOracle(Contract):
    name = PTY + '.kill'
    only_in = 'repl'
    params = ['self', 'sig']

    def effects(self, v):
        v.g['kills'] = v.g['kills'] + 1
        v.g['kill_sig'] = v.old.sig
        v.g['last'] = 'kill'


class SplitLines(Contract):
    params = ['s']

    def outcomes(self, v):
        return [Ret(TSymList((('line', T.Text),), True))]


class ReplLoop(LoopSpec):
    vars = {'line': T.Text, 'res': TSymList((('o', T.Text),), True)}
    ghost = {'nsend': T.Int, 'nexpect': T.Int, 'outputs': T.Text}

    def modifies(self, v):
        return [(v.l.child_obj, 'before', T.Text)] if v.l.has('child_obj') else []

    def invariant(self, v):
        i = v.l._i0
        g = v.g
        return [('C16:one-line-sent-per-step', eq(g['nsend'], i + 1)),
                ('C16:one-wait-per-further-line', eq(g['nexpect'], i)),
                ('C16:collected-outputs', eq(list_join('', v.l.res), g['outputs'])),
                ('last-was-a-send', g['last'] == 'send')]


def repl_ghost(b, lines):
    from pyvc.engine import to_spec
    for k, val in (('nsend', 0), ('nexpect', 0), ('outputs', ''), ('last', 'start'), ('kills', 0), ('kill_sig', None),
                   ('last_timeout', None), ('last_async', None)):
        b.ghost(k, val)
    b.ghost('prompt', b.str('prompt', 's'))
    b.ghost('continuation', b.str('continuation', 's'))
    if hasattr(b, 'ctx'):
        b.ghost('cmdlines', lines)


def repl_shape(b):
    child = b.obj('child', PTY, sealed=False, before=b.str('before0', 's'))
    me = b.obj('self', RW, sealed=False, child=child, prompt=b.const('P'), continuation_prompt=b.const('C'))
    return me, child


def repl_post(v, repl_async):
    if getattr(v, 'concrete', False):
        return []
    g = v.g
    lines = lines_of(v, new=True)
    out = [('C16:every-line-was-sent-once', eq(g['nsend'], lines.len) if v.raised in (None, 'ValueError') else g['nsend'] <= lines.len),
           ('C16:asynchronous-waits-only-in-the-awaited-form', g['last_async'] is None or
            (eq(g['last_async'], repl_async) if is_sym(g['last_async']) else bool(g['last_async']) == repl_async))]
    if v.raised == 'ValueError':
        import signal
        out += [('C16:incomplete-input-is-interrupted-once', And(eq(g['kills'], 1), eq(g['kill_sig'], int(signal.SIGINT)))),
                ('C16:resynchronises-after-the-interrupt', And(eq(g['nexpect'], lines.len + 1), eq(g['last_timeout'], 1)))]
    elif v.raised is None:
        out += [('C16:one-wait-per-line', eq(g['nexpect'], lines.len)),
                ('C16:returns-exactly-the-outputs-of-its-own-waits', eq(v.result, g['outputs'])),
                ('C16:no-interrupt', eq(g['kills'], 0))]
    return out


class AsyncRunCommand(Contract):
    name = ASYNC
    props = ('C16',)
    context = 'repl'
    loops = {0: ReplLoop()}
    standin = False
    inline = True       # verified on its own; run_command(async_=True) sees its body (with this loop contract)

    def shape(self, b):
        me, child = repl_shape(b)
        if hasattr(b, 'ctx'):
            h = b.ctx.heap[me.oid]
            h.fields['prompt'] = b.ctx.ghost.get('prompt') and None
        lines = b.symlist('cmdlines', [('line', T.Text)], scalar=True)
        repl_ghost(b, lines)
        self._fix_prompts(b, me)
        t = b.opt('timeout', lambda: b.real('timeout'))
        b.ghost('want_timeout', t)
        return dict(repl=me, cmdlines=lines, timeout=t)

    def _fix_prompts(self, b, me):
        if hasattr(b, 'ctx'):
            from pyvc.values import VStr
            h = b.ctx.heap[me.oid]
            h.fields['prompt'] = VStr(b.ctx.ghost['prompt'], 's')
            h.fields['continuation_prompt'] = VStr(b.ctx.ghost['continuation'], 's')

    def requires(self, v):
        return [('at-least-one-line', v.a.cmdlines.len >= 1)]

    def outcomes(self, v):
        return [Ret(T.Text), Raises('ValueError'), Raises('TIMEOUT'), Raises('EOF')]

    def exits(self, v):
        return ('ValueError', 'TIMEOUT', 'EOF')

    def ensures(self, v):
        return repl_post(v, True)


class RunCommand(Contract):
    name = RW + '.run_command'
    props = ('C16',)
    context = 'repl'
    loops = {0: ReplLoop()}
    standin = False

    def shape(self, b):
        me, child = repl_shape(b)
        # the lines the command splits into are chosen by the splitlines oracle; the ghost refers to that list
        repl_ghost(b, b.symlist('cmdlines', [('line', T.Text)], scalar=True))
        AsyncRunCommand._fix_prompts(self, b, me)
        t = b.opt('timeout', lambda: b.real('timeout'))
        b.ghost('want_timeout', t)
        return dict(self=me, command=b.str('command', 's'), timeout=t,
                    async_=b.const(b.choice('async_', [False, True])))

    def outcomes(self, v):
        return [Ret(T.Text), Raises('ValueError'), Raises('TIMEOUT'), Raises('EOF')]

    def exits(self, v):
        return ('ValueError', 'TIMEOUT', 'EOF')

    def ensures(self, v):
        if getattr(v, 'concrete', False):
            return []
        if not is_sym(v.g['nsend']) and v.g['nsend'] == 0:
            return [('C16:no-command-is-an-error', v.raised == 'ValueError')]
        extra = [('C16:lines-are-the-lines-of-the-command', eq(v.g['split_of'], v.old.command))]
        import z3
        a = v.old.async_
        is_async = z3.is_true(z3.simplify(a)) if is_sym(a) else bool(a)
        return repl_post(v, is_async) + extra


class SplitLinesRepl(Contract):
    """command.splitlines(): the ghost list of lines becomes what the wrapper has to send"""
    params = ['s']

    def outcomes(self, v):
        return [Ret(TSymList((('line', T.Text),), True))]

    def effects(self, v):
        import z3
        # v.result is a view over the state at return: a value, not the list object the code goes on to modify
        v.g['cmdlines'] = WantLines(v.result, z3.SuffixOf(z3.StringVal('\n'), v.old.s))
        v.g['split_len'] = v.result.len
        v.g['split_of'] = v.old.s


def register(reg):
    reg.add(RunCommand)
    for c in (PromptOracle, LineOracle, KillOracle, AsyncRunCommand):
        reg.add(c)
    reg.add_extern('str.splitlines', SplitLinesRepl)
    reg.inline_ok.update({RW + '._expect_prompt'})
