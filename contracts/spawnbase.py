"""Contracts for pexpect/spawnbase.py."""
from pyvc.types import *
from pyvc.cbase import Contract, LoopSpec, Ret, Raises
from pyvc.spec import *
from .common import *


class ReadNonblockingIface(Contract):
    """spawn.read_nonblocking(size, timeout) as the matching machinery sees it (interface contract;
    the four transports are proved to refine it under C05/C06/C07/C11).
    Ghost: R = text delivered to the matching machinery, clk = ghost clock."""
    name = 'pexpect.spawnbase.SpawnBase.read_nonblocking'
    params = ['self', 'size', 'timeout']
    defaults = {'size': 1, 'timeout': None}
    iface = True
    receiver = SPAWNBASE

    def outcomes(self, v):
        k = io_kind(v.old.self._before)
        return [Ret(TStr(k), 'data'), Raises('EOF'), Raises('TIMEOUT'), Raises('OSError', 'error')]

    def effects(self, v):
        t = v.old.timeout
        dt = v.draw(T.Real, 'dt')
        v.dt = dt
        v.g['clk'] = v.g['clk'] + dt
        v.g['nreads'] = v.g.get('nreads', 0) + 1
        if v.raised is None:
            v.g['R'] = cat(v.g['R'], v.result)

    def ensures(self, v):
        t = v.old.timeout
        dt = v.dt
        out = [('time-forward', dt >= 0)]
        if t is not None:
            out.append(('bounded-by-timeout', dt <= smax(t, 0)))
        if v.raised == 'TIMEOUT':
            # TIMEOUT is reported only when a finite timeout has fully elapsed
            out.append(('timeout-only-after-t', False if t is None else dt >= t))
        if v.raised is None:
            out.append(('at-most-size', length(v.result) <= v.old.size))
        return out


# =============================================================================================
# the expect family on SpawnBase (C01, C04, C05)
# =============================================================================================
from .expect import (expect_outcome_post, expect_outcomes, expect_modifies, expect_effects, pend_of, sbuf_of,
                     W_ok)


def spawn_inv(sp):
    """Class invariant of a spawn object as far as the expect family needs it."""
    d = sp.delayafterread
    out = [('inv', INV_buf(sp)), ('maxread-positive', sp.maxread >= 1),
           ('delay-nonneg', True if d is None else d >= 0)]
    if sp.has('searchwindowsize'):
        out.append(('spawn-W-domain', W_ok(sp.searchwindowsize)))
    return out


def api_spawn(b):
    sp, kind = spawn_shape(b, name='self', loop=True, defaults=True)
    b.ghost('R', b'' if (kind == 'b' and hasattr(b, 'source')) else '')
    b.ghost('clk', b.real('clk0'))
    b.ghost('nreads', 0)
    return sp, kind


def timeout_param(b):
    c = b.choice('timeout', ['default', 'none', 'some'])
    if c == 'default':
        return b.const(-1)
    if c == 'none':
        return b.none()
    return b.real('timeout')


def window_param(b):
    c = b.choice('searchwindowsize', ['default', 'none', 'some'])
    if c == 'default':
        return b.const(-1)
    if c == 'none':
        return b.none()
    return b.int('searchwindowsize')


def effective_timeout(sp, t):
    """-1 means the instance default (C05)."""
    if isinstance(t, int) and not isinstance(t, bool) and t == -1:
        return sp.timeout
    if is_sym(t):
        import z3
        z = z3.simplify(t)
        if z3.is_int_value(z) and z.as_long() == -1:
            return sp.timeout
    return t


def is_minus_one(x):
    """the literal -1 (Python int, or the numeral the engine makes of a default argument)"""
    if isinstance(x, int) and not isinstance(x, bool):
        return x == -1
    if is_sym(x):
        import z3
        z = z3.simplify(x)
        return z3.is_int_value(z) and z.as_long() == -1
    return False


def param_domains(v):
    out = []
    t = v.a.timeout
    if t is not None and not isinstance(t, int) and not (is_sym(t) and str(t.sort()) == 'Int'):
        out.append(('timeout-not-sentinel', Not(eq(t, -1))))
    if v.a.has('searchwindowsize'):
        w = v.a.searchwindowsize
        if w is not None and not is_minus_one(w):
            out.append(('W-domain', w >= 1))
    return out


class SetBuffer(Contract):
    name = SPAWNBASE + '._set_buffer'
    props = ('C01',)

    def shape(self, b):
        sp, kind = spawn_shape(b, name='self')
        return dict(self=sp, value=b.str('value', kind))

    def modifies(self, v, out):
        sp = v.old.self
        k = io_kind(sp._before)
        return [(sp, '_buffer', TIo(k)), (sp, '_before', TIo(k))]

    def ensures(self, v):
        new = v.new.self
        # C01: "assigning to the buffer attribute replaces the pending text"
        return [('inv', INV_buf(new)),
                ('replaces-pending-text', And(eq(pend_of(new), v.old.value), eq(sbuf_of(new), v.old.value)))]


class GetBuffer(Contract):
    name = SPAWNBASE + '._get_buffer'
    props = ('C01',)
    inline = True

    def shape(self, b):
        sp, kind = spawn_shape(b, name='self')
        return dict(self=sp)

    def outcomes(self, v):
        return [Ret(TStr(io_kind(v.old.self._buffer)))]

    def ensures(self, v):
        return [('is-search-buffer', eq(v.result, sbuf_of(v.old.self)))]


class ExpectList(Contract):
    name = SPAWNBASE + '.expect_list'
    props = ('C01', 'C04', 'C05')

    def shape(self, b):
        sp, kind = api_spawn(b)
        return dict(self=sp, pattern_list=b.symlist('pattern_list', [('p', TPat(TRegex(kind)))], scalar=True),
                    timeout=timeout_param(b), searchwindowsize=window_param(b), async_=b.const(False))

    def requires(self, v):
        return spawn_inv(v.a.self) + param_domains(v)

    def instrument(self, args, g):
        from .expect import ghost_clock
        return ghost_clock('pexpect.expect', g)

    def outcomes(self, v):
        return expect_outcomes()

    def exits(self, v):
        return ('EOF', 'TIMEOUT', 'OSError')

    def modifies(self, v, out):
        return expect_modifies(v.old.self, out.label)

    def effects(self, v):
        expect_effects(v, v.old.self)

    def ensures(self, v):
        sp = v.old.self
        return expect_outcome_post(v, sp, v.new.self, effective_timeout(sp, v.old.timeout), plist=v.old.pattern_list)


class ExpectLoopSB(ExpectList):
    """SpawnBase.expect_loop(searcher, timeout, searchwindowsize): public entry point taking a searcher."""
    name = SPAWNBASE + '.expect_loop'

    def shape(self, b):
        sp, kind = api_spawn(b)
        return dict(self=sp, searcher=searcher_shape(b, lookback=True), timeout=timeout_param(b),
                    searchwindowsize=window_param(b))

    def requires(self, v):
        se = v.a.searcher
        ls = [('L-domain', se.longest_string >= 0)] if se.has('longest_string') else []
        return spawn_inv(v.a.self) + param_domains(v) + ls

    def modifies(self, v, out):
        return expect_modifies(v.old.self, out.label, v.old.searcher)

    def ensures(self, v):
        sp, se = v.old.self, v.old.searcher
        return expect_outcome_post(v, sp, v.new.self, effective_timeout(sp, v.old.timeout),
                                   eof_index=se.eof_index, timeout_index=se.timeout_index, new_searcher=v.new.searcher)


def register_api(reg):
    for c in (SetBuffer, GetBuffer, ExpectList, ExpectLoopSB):
        reg.add(c)
    reg.inline_ok.update({'pexpect.expect.Expecter.__init__'})


def register(reg):
    reg.add(ReadNonblockingIface)
    register_api(reg)


