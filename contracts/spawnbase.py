"""Contracts for pexpect/spawnbase.py."""
from pyvc.types import *
from pyvc.cbase import Contract, LoopSpec, Ret, Raises
from pyvc.spec import *
from .common import *


class ReadNonblockingIface(Contract):
    """spawn.read_nonblocking(size, timeout) as the matching machinery sees it (interface contract;
    the four transports are proved to refine it under C05/C06/C07/C11).
    Ghost: R = text delivered to the matching machinery, clk = ghost clock."""
    name = 'pexpect.spawnbase.SpawnBase.read_nonblocking'
    params = ['self', 'size', 'timeout']
    defaults = {'size': 1, 'timeout': None}
    iface = True
    receiver = SPAWNBASE

    def outcomes(self, v):
        k = io_kind(v.old.self._before)
        return [Ret(TStr(k), 'data'), Raises('EOF'), Raises('TIMEOUT'), Raises('OSError', 'error')]

    def effects(self, v):
        t = v.old.timeout
        dt = v.draw(T.Real, 'dt')
        v.dt = dt
        v.g['clk'] = v.g['clk'] + dt
        if v.raised is None:
            v.g['R'] = cat(v.g['R'], v.result)

    def ensures(self, v):
        t = v.old.timeout
        dt = v.dt
        out = [('time-forward', dt >= 0)]
        if t is not None:
            out.append(('bounded-by-timeout', dt <= smax(t, 0)))
        if v.raised == 'TIMEOUT':
            # TIMEOUT is reported only when a finite timeout has fully elapsed
            out.append(('timeout-only-after-t', False if t is None else dt >= t))
        if v.raised is None:
            out.append(('at-most-size', length(v.result) <= v.old.size))
        return out


def register(reg):
    reg.add(ReadNonblockingIface)
