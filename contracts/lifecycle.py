"""Contracts for child status and lifecycle (C09, C10): pty spawn, fdspawn, SocketSpawn, PopenSpawn.

Ghost: fate_exit / fate_sig = the child's real exit code / terminating signal (exactly one is not None once the
child has ended; unknown to the program until ptyprocess reaps the child), kills = signals sent with os.kill.
ptyprocess 0.7.0 is an assumed dependency: its contracts below were written from its source."""
from pyvc.types import *
from pyvc.cbase import Contract, LoopSpec, Ret, Raises
from pyvc.spec import *
from .common import *
from .transports import PTY, FD, POPEN, SOCK, transport_shape, _uf

STATUS_FIELDS = ('status', 'exitstatus', 'signalstatus')


def status_of(g):
    """the wait status that encodes the fate (os.W* decode it back)"""
    e, s = g['fate_exit'], g['fate_sig']
    if getattr(e, '__class__', None) is not None and (is_sym(e) or is_sym(s)):
        f = _uf('WaitStatus', 'i', 'i', 'i')
        return f(e if e is not None else -1, s if s is not None else -1)
    return ('status', e, s)


def fields_are_fate(o, g):
    return And(eq(o.exitstatus, g['fate_exit']), eq(o.signalstatus, g['fate_sig']), eq(o.status, g['fate_status']))


def PINV(p, g):
    """ptyprocess object invariant: once terminated, the recorded fate is the real one and frozen"""
    return Implies(p.terminated, fields_are_fate(p, g))


def fate(b):
    c = b.choice('fate', ['exited', 'signalled'])
    if c == 'exited':
        b.ghost('fate_exit', b.int('fate_exit'))
        b.ghost('fate_sig', None)
    else:
        b.ghost('fate_exit', None)
        b.ghost('fate_sig', b.int('fate_sig'))
    b.ghost('fate_status', b.int('fate_status'))
    b.ghost('kills', 0)
    b.ghost('closed_fds', 0)


def ptyproc_obj(b):
    return b.obj('ptyproc', 'iface:ptyproc', sealed=False,
                 status=b.sopt('p.status', lambda: b.int('p.status')),
                 exitstatus=b.sopt('p.exitstatus', lambda: b.int('p.exitstatus')),
                 signalstatus=b.sopt('p.signalstatus', lambda: b.int('p.signalstatus')),
                 terminated=b.bool('p.terminated'), flag_eof=b.bool('p.flag_eof'), closed=b.bool('p.closed'),
                 fd=b.int('p.fd'), pid=b.int('p.pid'))


def pty_shape(b):
    fate(b)
    p = ptyproc_obj(b)
    sp = b.obj('self', PTY, sealed=False, ptyproc=p,
               status=b.sopt('status', lambda: b.int('status')),
               exitstatus=b.sopt('exitstatus', lambda: b.int('exitstatus')),
               signalstatus=b.sopt('signalstatus', lambda: b.int('signalstatus')),
               terminated=b.bool('terminated'), closed=b.bool('closed'), child_fd=b.int('child_fd'), pid=b.int('pid'),
               delayafterterminate=b.real('delayafterterminate'), delayafterclose=b.real('delayafterclose'))
    b.ghost('clk', b.real('clk0'))
    return sp


def STAT(sp, g):
    """C09: once pexpect has observed the death, its fields are the child's real fate"""
    return Implies(sp.terminated, fields_are_fate(sp, g))


def H(sp):
    """C10 handle invariant: a closed object holds no descriptor number"""
    return Implies(sp.closed, eq(sp.child_fd, -1))


def pty_requires(v):
    sp = v.a.self
    return [('ptyprocess-invariant', PINV(sp.ptyproc, v.g)), ('status-invariant', STAT(sp, v.g)),
            ('handle-invariant', H(sp)), ('delays-nonneg', And(sp.delayafterterminate >= 0, sp.delayafterclose >= 0)),
            ('same-process', eq(sp.pid, sp.ptyproc.pid)),
            ('not-terminated-before-ptyprocess', Implies(sp.terminated, sp.ptyproc.terminated))]


def pty_base(v):
    new = v.new.self
    return [('ptyprocess-invariant', PINV(new.ptyproc, v.g)), ('C09:status-invariant', STAT(new, v.g)),
            ('C10:handle-invariant', H(new)),
            ('C10:terminated-only-if-reaped', Implies(new.terminated, new.ptyproc.terminated))]


def status_unchanged(old, new):
    return And(*[eq(getattr(new, f), getattr(old, f)) for f in STATUS_FIELDS + ('terminated',)])


def status_mods(o):
    return [(o, 'status', TOpt(T.Int)), (o, 'exitstatus', TOpt(T.Int)), (o, 'signalstatus', TOpt(T.Int)),
            (o, 'terminated', T.Bool)]


# ---- assumed: ptyprocess ------------------------------------------------------------------------------------
class PtyIsalive(Contract):
    params = ['self']

    def outcomes(self, v):
        return [Ret(T.Bool, 'alive'), Ret(T.Bool, 'dead'), Raises('PtyProcessError')]

    def modifies(self, v, out):
        return status_mods(v.old.self) if out.label == 'dead' else []

    def ensures(self, v):
        old, new = v.old.self, v.new.self
        if v.label == 'alive':
            return [('alive', And(eq(v.result, True), Not(old.terminated)))]
        if v.label == 'dead':
            return [('dead', And(eq(v.result, False), new.terminated, fields_are_fate(new, v.g)))]
        return [('error-only-when-not-terminated', Not(old.terminated))]


class PtyWait(Contract):
    params = ['self']

    def outcomes(self, v):
        return [Ret(TOpt(T.Int)), Raises('PtyProcessError')]

    def modifies(self, v, out):
        return status_mods(v.old.self) if out.kind == 'ret' else []

    def ensures(self, v):
        new = v.new.self
        if v.raised is not None:
            return []
        return [('waited', And(new.terminated, fields_are_fate(new, v.g), eq(v.result, v.g['fate_exit'])))]


class PtyClose(Contract):
    """close(force): closes the descriptor; reaps the child or raises after having closed the descriptor"""
    params = ['self', 'force']
    defaults = {'force': True}

    def outcomes(self, v):
        return [Ret(T.NoneT, 'closed'), Raises('PtyProcessError', 'could-not-terminate')]

    def modifies(self, v, out):
        p = v.old.self
        m = status_mods(p)
        if out.label == 'closed':
            m += [(p, 'closed', T.Bool), (p, 'fd', T.Int)]
        return m

    def effects(self, v):
        v.g['closed_fds'] = v.g['closed_fds'] + ite(v.old.self.closed, 0, 1)

    def ensures(self, v):
        old, new = v.old.self, v.new.self
        out = [('invariant', PINV(new, v.g)), ('terminated-monotone', Implies(old.terminated, new.terminated))]
        if v.raised is None:
            out += [('closed', And(new.closed, eq(new.fd, -1))),
                    ('already-closed-is-a-no-op', Implies(old.closed, status_unchanged(old, new))),
                    ('child-reaped', Implies(Not(old.closed), new.terminated))]
        else:
            out += [('raises-only-when-open-and-not-forced', And(Not(old.closed), Not(new.terminated)))]
        return out


class OsKill(Contract):
    params = ['pid', 'sig']

    def outcomes(self, v):
        return [Ret(T.NoneT), Raises('OSError')]

    def effects(self, v):
        v.g['kills'] = v.g['kills'] + 1
        v.g['killed_pid'] = v.old.pid


class Flush(Contract):
    params = ['self']


# ---- pty spawn ---------------------------------------------------------------------------------------------------
class SpawnIsalive(Contract):
    name = PTY + '.isalive'
    props = ('C09', 'C10')
    standin = False

    def shape(self, b):
        return dict(self=pty_shape(b))

    def requires(self, v):
        return pty_requires(v)

    def outcomes(self, v):
        return [Ret(T.Bool, 'alive'), Ret(T.Bool, 'dead'), Raises('ExceptionPexpect')]

    def exits(self, v):
        return ('ExceptionPexpect',)

    def modifies(self, v, out):
        sp = v.old.self
        return status_mods(sp) + status_mods(sp.ptyproc) if out.label == 'dead' else []

    def effects(self, v):
        # as seen by a caller that tracks the peer (read path): the peer may act before the status is sampled
        if 'peer' in v.g and getattr(v, 'label', None) is not None:
            from .readpath import env_step
            v.envc = env_step(v)
        if 'clk' in v.g and getattr(v, 'label', None) is not None:
            # ptyprocess: a non-blocking status check, EXCEPT after EOF was seen (flag_eof): then it waits for the
            # child to exit, however long that takes
            v.dt = v.draw(T.Real, 'dt')
            v.g['clk'] = v.g['clk'] + v.dt

    def ensures(self, v):
        old, new = v.old.self, v.new.self
        out = pty_base(v)
        if getattr(v, 'dt', None) is not None:
            out.append(('time', And(v.dt >= 0, Implies(Or(Not(old.ptyproc.flag_eof), old.ptyproc.terminated), eq(v.dt, 0)))))
        if getattr(v, 'envc', None) is not None:
            out.append(('env', v.envc))
            if v.label == 'dead':
                out.append(('reaped-means-exited', eq(v.g['peer'], 2)))
            elif v.label == 'alive':
                out.append(('alive-means-not-exited', Not(eq(v.g['peer'], 2))))
        if v.raised is not None:
            return out + [('C09:nothing-changes-on-error', status_unchanged(old, new)),
                          ('error-only-while-not-reaped', Not(old.ptyproc.terminated))]
        r = v.result
        if getattr(v, 'label', None) in ('alive', 'dead'):
            out.append(('result', eq(r, v.label == 'alive')))
        out += [
            # C09: a death that is observed is recorded truthfully; a live answer changes nothing
            ('C09:dead-records-the-real-fate', Implies(Not(r), And(new.terminated, fields_are_fate(new, v.g)))),
            ('C09:alive-changes-nothing', Implies(r, status_unchanged(old, new))),
            # C10: never alive once reaped, never dead while ptyprocess still has a running child
            ('C10:dead-iff-reaped', eq(r, Not(new.ptyproc.terminated))),
        ]
        return out


class SpawnWait(Contract):
    name = PTY + '.wait'
    props = ('C09', 'C10')
    standin = False

    def shape(self, b):
        return dict(self=pty_shape(b))

    def requires(self, v):
        return pty_requires(v)

    def outcomes(self, v):
        return [Ret(TOpt(T.Int)), Raises('ExceptionPexpect')]

    def exits(self, v):
        return ('ExceptionPexpect',)

    def modifies(self, v, out):
        sp = v.old.self
        return status_mods(sp) + status_mods(sp.ptyproc) if out.kind == 'ret' else []

    def ensures(self, v):
        old, new = v.old.self, v.new.self
        out = pty_base(v)
        if v.raised is not None:
            return out + [('C09:nothing-changes-on-error', status_unchanged(old, new))]
        return out + [('C09:records-the-real-fate', And(new.terminated, fields_are_fate(new, v.g))),
                      ('C09:returns-the-exit-code', eq(v.result, v.g['fate_exit']))]


class SpawnKill(Contract):
    name = PTY + '.kill'
    props = ('C10',)
    standin = False

    def shape(self, b):
        return dict(self=pty_shape(b), sig=b.int('sig'))

    def requires(self, v):
        return pty_requires(v)

    def outcomes(self, v):
        return [Ret(T.NoneT), Raises('ExceptionPexpect'), Raises('OSError')]

    def exits(self, v):
        return ('ExceptionPexpect', 'OSError')

    def modifies(self, v, out):
        sp = v.old.self
        return status_mods(sp) + status_mods(sp.ptyproc)

    def effects(self, v):
        v.dk = v.draw(T.Int, 'dk')
        v.g['kills'] = v.g['kills'] + v.dk

    def ensures(self, v):
        old, new = v.old.self, v.new.self
        dk = getattr(v, 'dk', None)
        if dk is None:
            dk = v.g['kills'] - v.g0['kills']
        out = pty_base(v) + [
            ('C10:signals-only-a-child-it-holds', And(0 <= dk, dk <= 1, Implies(eq(dk, 1), Not(new.ptyproc.terminated)))),
            ('C10:no-signal-to-a-reaped-child', Implies(old.ptyproc.terminated, eq(dk, 0)))]
        if getattr(v, 'dk', None) is None and not getattr(v, 'concrete', False):
            out.append(('C10:signals-its-own-child', Implies(eq(dk, 1), eq(v.g.get('killed_pid'), old.pid))))
        return out


class SpawnTerminate(Contract):
    name = PTY + '.terminate'
    props = ('C09', 'C10')
    standin = False

    def shape(self, b):
        return dict(self=pty_shape(b), force=b.bool('force'))

    def requires(self, v):
        return pty_requires(v)

    def outcomes(self, v):
        return [Ret(T.Bool), Raises('ExceptionPexpect')]

    def exits(self, v):
        return ('ExceptionPexpect',)

    def modifies(self, v, out):
        sp = v.old.self
        return status_mods(sp) + status_mods(sp.ptyproc)

    def ensures(self, v):
        new = v.new.self
        out = pty_base(v)
        if v.raised is None:
            out += [('C09+C10:true-only-if-dead-and-reaped', Implies(v.result, And(new.terminated, new.ptyproc.terminated,
                                                                                fields_are_fate(new, v.g))))]
        return out


class SpawnClose(Contract):
    name = PTY + '.close'
    props = ('C09', 'C10')
    standin = False

    def shape(self, b):
        return dict(self=pty_shape(b), force=b.bool('force'))

    def requires(self, v):
        sp = v.a.self
        return pty_requires(v) + [('same-handle-state', eq(sp.closed, sp.ptyproc.closed))]

    def outcomes(self, v):
        return [Ret(T.NoneT), Raises('ExceptionPexpect')]

    def exits(self, v):
        return ('ExceptionPexpect',)

    def modifies(self, v, out):
        sp = v.old.self
        m = status_mods(sp) + status_mods(sp.ptyproc)
        if out.kind == 'ret':
            m += [(sp, 'closed', T.Bool), (sp, 'child_fd', T.Int), (sp.ptyproc, 'closed', T.Bool), (sp.ptyproc, 'fd', T.Int)]
        return m

    def ensures(self, v):
        old, new = v.old.self, v.new.self
        out = pty_base(v)
        if v.raised is None:
            out += [('C10:closed-and-descriptor-forgotten', And(new.closed, eq(new.child_fd, -1), new.ptyproc.closed)),
                    ('C09+C10:child-dead-reaped-and-status-recorded', Implies(Not(old.closed), And(new.terminated, fields_are_fate(new, v.g)))),
                    ('C10:idempotent-no-second-close-of-the-descriptor',
                     eq(v.g['closed_fds'], v.g0['closed_fds'] + ite(old.closed, 0, 1)))]
        else:
            # the descriptor was closed by ptyprocess before it gave up on the child: pexpect must not keep the number
            out += [('C10:no-stale-descriptor-after-failed-close', eq(new.child_fd, -1))]
        # either way the object calls itself closed exactly when ptyprocess has closed the descriptor and dealt with
        # the child (close() relies on this on entry: a failed close must not turn later closes into no-ops)
        out += [('C10:closed-exactly-when-ptyprocess-is-closed', eq(new.closed, new.ptyproc.closed))]
        return out


# ---- fd / socket -------------------------------------------------------------------------------------------------
class OsClose(Contract):
    params = ['fd']

    def outcomes(self, v):
        return [Ret(T.NoneT), Raises('OSError')]

    def effects(self, v):
        if v.raised is None:
            v.g['closed_fds'] = v.g['closed_fds'] + 1
            v.g['closed_fd'] = v.old.fd


class FdClose(Contract):
    name = FD + '.close'
    props = ('C10',)
    standin = False

    def shape(self, b):
        b.ghost('closed_fds', 0)
        b.ghost('closed_fd', None)
        sp = b.obj('self', FD, sealed=False, child_fd=b.int('child_fd'), closed=b.bool('closed'))
        return dict(self=sp)

    def requires(self, v):
        sp = v.a.self
        return [('handle-invariant', eq(sp.closed, eq(sp.child_fd, -1)) if is_sym(sp.closed) else eq(sp.closed, sp.child_fd == -1))]

    def outcomes(self, v):
        return [Ret(T.NoneT), Raises('OSError')]

    def exits(self, v):
        return ('OSError',)

    def ensures(self, v):
        old, new = v.old.self, v.new.self
        if v.raised is not None:
            return []
        n = v.g['closed_fds'] - v.g0['closed_fds']
        return [('C10:closed-and-descriptor-forgotten', And(new.closed, eq(new.child_fd, -1))),
                ('C10:closes-its-own-descriptor-exactly-once', eq(n, ite(old.closed, 0, 1))),
                ('C10:the-right-descriptor', Implies(Not(old.closed), eq(v.g['closed_fd'], old.child_fd)))]


class FdIsalive(Contract):
    name = FD + '.isalive'
    props = ('C10',)
    standin = False

    def shape(self, b):
        sp = b.obj('self', FD, sealed=False, child_fd=b.int('child_fd'), closed=b.bool('closed'))
        return dict(self=sp)

    def outcomes(self, v):
        return [Ret(T.Bool)]

    def exits(self, v):
        return ()

    def ensures(self, v):
        return [('C10:closed-object-is-never-alive', Implies(eq(v.old.self.child_fd, -1), Not(v.result)))]


class OsFstat(Contract):
    params = ['fd']

    def outcomes(self, v):
        return [Ret(T.Any), Raises('OSError')]


class PopenWait(Contract):
    name = POPEN + '.wait'
    props = ('C09',)
    standin = False

    def shape(self, b):
        fate(b)
        proc = b.obj('proc', 'iface:popen', sealed=False)
        sp = b.obj('self', POPEN, sealed=False, proc=proc, status=b.none(), exitstatus=b.none(), signalstatus=b.none(),
                   terminated=b.const(False))
        return dict(self=sp)

    def outcomes(self, v):
        return [Ret(T.Int)]

    def exits(self, v):
        return ()

    def ensures(self, v):
        new = v.new.self
        g = v.g
        code = g['fate_exit'] if g['fate_exit'] is not None else -g['fate_sig']
        return [('C09:exit-or-signal-recorded', And(eq(new.exitstatus, g['fate_exit']), eq(new.signalstatus, g['fate_sig']),
                                                   new.terminated)),
                ('C09:returns-the-return-code', eq(v.result, code)),
                ('C09:status-decodes-to-the-same', Not(is_none(new.status)))]


class PopenProcWait(Contract):
    """subprocess.Popen.wait(): the exit code, or minus the terminating signal"""
    params = ['self']

    def outcomes(self, v):
        return [Ret(T.Int)]

    def ensures(self, v):
        g = v.g
        if g['fate_exit'] is not None:
            return [('returncode', And(eq(v.result, g['fate_exit']), v.result >= 0))]
        return [('returncode', And(eq(v.result, -g['fate_sig']), g['fate_sig'] >= 1))]


# ---- SocketSpawn.close / isalive -----------------------------------------------------------------------------------
class SockShutdown(Contract):
    """socket.shutdown(how): may fail with OSError (ENOTCONN) when the peer has already reset the connection"""
    params = ['self', 'how']

    def outcomes(self, v):
        return [Ret(T.NoneT), Raises('OSError', 'not-connected')]


class SockCloseCall(Contract):
    params = ['self']

    def effects(self, v):
        v.g['sock_closed'] = True
        v.g['closed_fds'] = v.g['closed_fds'] + 1


class SockFileno(Contract):
    params = ['self']

    def outcomes(self, v):
        return [Ret(T.Int)]

    def ensures(self, v):
        return [('closed-socket-has-no-descriptor', Implies(v.g.get('sock_closed', False), eq(v.result, -1)))]


class SockClose(Contract):
    name = SOCK + '.close'
    props = ('C10',)
    standin = False

    def shape(self, b):
        b.ghost('closed_fds', 0)
        b.ghost('sock_closed', False)
        sp = b.obj('self', SOCK, sealed=False, child_fd=b.int('child_fd'), closed=b.bool('closed'),
                   socket=b.obj('socket', 'iface:socket', sealed=False))
        return dict(self=sp)

    def requires(self, v):
        sp = v.a.self
        return [('handle-invariant', eq(sp.closed, eq(sp.child_fd, -1)))]

    def outcomes(self, v):
        return [Ret(T.NoneT)]

    def exits(self, v):
        return ()           # a connection the peer already tore down must not keep close() from releasing the socket

    def ensures(self, v):
        old, new = v.old.self, v.new.self
        n = v.g['closed_fds'] - v.g0['closed_fds']
        return [('C10:closed-and-descriptor-forgotten', And(new.closed, eq(new.child_fd, -1))),
                ('C10:descriptor-released-exactly-once', eq(n, ite(old.closed, 0, 1)))]


class SpawnExit(Contract):
    """with spawn(...) as child: leaving the block closes the child, whether or not by an exception"""
    name = SPAWNBASE + '.__exit__'
    receiver = (PTY,)
    props = ('C10',)
    standin = False

    def shape(self, b):
        et = b.opt('etype', lambda: b.any('etype'))
        return dict(self=pty_shape(b), etype=et, evalue=b.any('evalue'), tb=b.any('tb'))

    def requires(self, v):
        sp = v.a.self
        return pty_requires(v) + [('same-handle-state', eq(sp.closed, sp.ptyproc.closed))]

    def outcomes(self, v):
        return [Ret(T.NoneT), Raises('ExceptionPexpect')]

    def exits(self, v):
        return ('ExceptionPexpect',)

    def ensures(self, v):
        new = v.new.self
        if v.raised is not None:
            return []
        return [('C10:leaving-the-block-closes-the-child', And(new.closed, eq(new.child_fd, -1))),
                ('C10:does-not-swallow-the-exception', is_none(v.result))]


class SpawnStr(Contract):
    """str(spawn), used to build the message of the EOF / TIMEOUT exceptions (C04: "never some other error"): total on
    every state an expect-family call can leave behind (before is a string or None; after / match anything)."""
    name = PTY + '.__str__'
    props = ('C04',)
    standin = False
    only_in = 'str'
    context = 'str'

    def shape(self, b):
        kind = b.choice('mode', ['b', 's'])
        f = dict(command=b.sopt('command', lambda: b.str('command', 's')), args=b.any('args'), str_last_chars=b.int('str_last_chars'),
                 _buffer=b.io('sbuf', kind), buffer_type=b.cls('BytesIO' if kind == 'b' else 'StringIO'),
                 before=b.opt('before', lambda: b.str('before', kind)), after=b.any('after'), match=b.any('match'),
                 match_index=b.sopt('match_index', lambda: b.int('match_index')), exitstatus=b.sopt('exitstatus', lambda: b.int('exitstatus')),
                 flag_eof=b.bool('flag_eof'), pid=b.sopt('pid', lambda: b.int('pid')), child_fd=b.int('child_fd'), closed=b.bool('closed'),
                 timeout=b.sopt('timeout', lambda: b.real('timeout')), delimiter=b.cls('EOF'), logfile=b.any('logfile'),
                 logfile_read=b.any('logfile_read'), logfile_send=b.any('logfile_send'), maxread=b.int('maxread'),
                 ignorecase=b.bool('ignorecase'), searchwindowsize=b.sopt('searchwindowsize', lambda: b.int('searchwindowsize')),
                 delaybeforesend=b.sopt('delaybeforesend', lambda: b.real('delaybeforesend')), delayafterclose=b.real('delayafterclose'),
                 delayafterterminate=b.real('delayafterterminate'))
        if b.choice('ptyproc', ['present', 'absent']) == 'present':
            f['ptyproc'] = b.obj('ptyproc', 'iface:ptyproc', sealed=False)
        return dict(self=b.obj('self', PTY, sealed=True, **f))

    def requires(self, v):
        return [('buffer-at-end', eq(v.a.self._buffer.pos, length(v.a.self._buffer.content)))]

    def exits(self, v):
        return ()

    def ensures(self, v):
        return [('C04:describing-the-object-never-fails', v.raised is None)]


def register(reg):
    reg.add(SpawnStr)
    reg.add(SpawnExit)
    reg.add(SockClose)
    reg.add_iface('iface:socket', 'shutdown', SockShutdown)
    reg.add_iface('iface:socket', 'close', SockCloseCall)
    reg.add_iface('iface:socket', 'fileno', SockFileno)
    reg.add_iface('iface:ptyproc', 'isalive', PtyIsalive)
    reg.add_iface('iface:ptyproc', 'wait', PtyWait)
    reg.add_iface('iface:ptyproc', 'close', PtyClose)
    reg.add_iface('iface:popen', 'wait', PopenProcWait)
    reg.add_extern('os.kill', OsKill)
    reg.add_extern('os.close', OsClose)
    reg.add_extern('os.fstat', OsFstat)
    for c in (SpawnIsalive, SpawnWait, SpawnKill, SpawnTerminate, SpawnClose, FdClose, FdIsalive, PopenWait):
        reg.add(c)
    reg.inline_ok.update({'pexpect.spawnbase.SpawnBase.flush'})


