"""Which contracts carry which property (clause ids may be tagged 'Cxx:' to restrict a clause to
one property; untagged clauses - invariants, safety - count for every property of the contract)."""

E = 'pexpect.expect.Expecter.'

SS = 'pexpect.expect.searcher_string.'
SR = 'pexpect.expect.searcher_re.'

SCRN = 'pexpect.screen.'


def _screen_contracts():
    from . import screen as sc
    from pyvc.cbase import Registry
    r = Registry()
    sc.register(r)
    return sorted(r.contracts)


def _ansi_contracts():
    from . import ansi
    from pyvc.cbase import Registry
    r = Registry()
    ansi.register(r)
    return sorted(n for n in r.contracts if n != 'pexpect.ANSI.ANSI.process')


def _transport_contracts(kinds):
    from . import transports as tr
    out = []
    for cls in tr.TRANSPORTS:
        for m in kinds:
            out.append('%s.%s' % (cls, m))
    return out


SB = 'pexpect.spawnbase.SpawnBase.'
PTYC = 'pexpect.pty_spawn.spawn.'
FDC = 'pexpect.fdpexpect.fdspawn'

POP = 'pexpect.popen_spawn.PopenSpawn.'

RP_CONTRACTS = ['pexpect.utils.select_ignore_interrupts', 'pexpect.utils.poll_ignore_interrupts',
                (SB + 'read_nonblocking', FDC), 'pexpect.fdpexpect.fdspawn.read_nonblocking',
                'pexpect.pty_spawn.spawn.read_nonblocking', 'pexpect.popen_spawn.PopenSpawn.read_nonblocking',
                'pexpect.socket_pexpect.SocketSpawn.read_nonblocking']
READS = RP_CONTRACTS[2:]

PXC = 'pexpect.pxssh.pxssh.'

PROPS = {
    'C15': {
        'contracts': ['pexpect.pty_spawn.spawn.interact', 'pexpect.pty_spawn.spawn.__interact_copy', 'pexpect.pty_spawn.spawn.__interact_writen'],
        'assumptions': [
            'the two ends are seen through oracles (contracts/interact.py): os.read(child_fd) takes a non-empty prefix of the unread child output or reports EOF iff none is left and the child is gone; os.write(child_fd) may write any non-empty prefix; os.read(STDIN) returns any bytes; isalive() is False iff the child has exited; select/poll may return any subset of the two descriptors',
            'os.write(STDOUT_FILENO, data) to the user\'s blocking terminal takes all of data (its return value is ignored by the code); a non-blocking or interrupted stdout is outside the contracts',
            'input_filter / output_filter are arbitrary functions from bytes to bytes, applied once per read; "unchanged" means exactly their results, in order',
            'tty.tcgetattr / setraw / tcsetattr are modelled as reading / replacing one terminal-mode value; write_to_stdout and sys.stdout.flush as recording their argument',
            'liveness (that interact() eventually returns) and what the terminal driver does with the bytes are not claimed',
        ],
    },
    'C03': {
        'contracts': [E + 'do_search', E + 'existing_data', E + 'new_data', E + 'expect_loop', SS + 'search', SR + 'search',
                      SS + '__init__', SR + '__init__', (E + '__init__', 'ctx:init'),
                      (E + 'do_search', 'ctx:exact'), (E + 'existing_data', 'ctx:exact'), (E + 'new_data', 'ctx:exact'),
                      (E + 'expect_loop', 'ctx:exact'),
                      'pexpect._async_w_await.PatternWaiter.data_received', 'pexpect._async_w_await.expect_async'],
        'assumptions': [
            'str.find(s, start) returns the LOWEST index >= start at which s occurs, or -1 (documented CPython semantics; Find axioms in pyvc/engine.py)',
            'the regex searcher (searcher_re.search, proved under C02 to be a function of the window and W only) is asked to search exactly the naive region: this is what window-is-last-W-of-pending / window-is-all-pending prove; which occurrence the re engine selects inside it is the re module\'s contract',
            'a user-supplied searcher object (expect_loop(searcher)) is only known through the searcher interface: for it the same window clauses are proved, agreement with naive search of its own semantics is not expressible',
            'the exact-string search is proved against Find(region, s, 0) = region.find(s) through the lemma incremental_find, itself proved on every run (cvc5) from the definition of Find and cross-checked against CPython on short strings',
        ],
        'extra': 'contracts.extra_c03',
        'technique_note': 'plus the string lemma incremental_find, proved on every run from the definition of Find (cvc5) and cross-checked against CPython on short strings (bounded)',
    },
    'C20': {
        'contracts': ['pexpect.spawnbase.SpawnBase._coerce_expect_string', 'pexpect.spawnbase.SpawnBase._coerce_expect_re',
                      'pexpect.spawnbase.SpawnBase.compile_pattern_list', 'pexpect.spawnbase.SpawnBase.expect', 'pexpect.spawnbase.SpawnBase.expect_exact'],
        'assumptions': [
            're.compile(text, flags) is a function of (text, string type, flags): equal arguments give patterns selecting the same occurrences (CPython compares compiled patterns exactly so); what a flag means inside the regex engine is the re module\'s contract',
            'str.encode / bytes.decode are modelled as the identity on the code-unit sequence (exact for ASCII text, which is what C20 states; non-ASCII text given to a bytes-mode object raises UnicodeEncodeError in CPython and is outside the property)',
            'bit operations on flag words are an uninterpreted function bitand(x, mask) shared by code and specification',
            'the object that is no pattern is an opaque value that is no string, compiled pattern, list or class (any other isinstance test on it may go either way); for expect_exact, which iterates whatever it is given, it is additionally taken to be non-iterable - an iterable of patterns is the list form',
        ],
    },
    'C14': {
        'contracts': ['pexpect._async_w_await.PatternWaiter.data_received', 'pexpect._async_w_await.PatternWaiter.eof_received',
                      'pexpect._async_w_await.PatternWaiter.connection_lost', 'pexpect._async_w_await.expect_async'],
        'assumptions': [
            'asyncio: callbacks of the protocol run one at a time; Future.done / set_result / set_exception and transport.pause_reading / resume_reading behave per their documentation (modelled as ghost state)',
            'parity is proved as: the awaited path calls the same contracted Expecter methods (existing_data first, new_data per chunk, eof, timeout) with the same data as the blocking loop, so index / before / after / match / pending text agree by C01-C04 whenever both have received the same text at each search point; equality across different arrival points is excluded by the pexpect documentation itself',
            'connect_read_pipe returns (transport, protocol built by the factory); wait_for returns the future outcome or raises asyncio.TimeoutError after the timeout; cancellation inside wait_for and event-loop scheduling are outside the contracts; _async_pre_await.py is dead on this interpreter and not verified',
        ],
    },
    'C16': {
        'contracts': ['pexpect.replwrap.REPLWrapper.run_command', 'pexpect._async_w_await.repl_run_command_async'],
        'assumptions': [
            'ASSUMED REPL contract: after a complete input the REPL prints the command output, which does not contain the prompt, then exactly one prompt; after incomplete input it prints the continuation prompt. Under it the value proved to be returned (the before of every wait, in order) is the output of the command. Whether real bash / python honour this (large outputs, missing final newline, after SIGINT) is behaviour of external programs and is NOT claimed',
            'the child is seen through oracles (expect_exact returns prompt / continuation index or raises; sendline and kill are recorded)',
            'the blocking and the awaited form are proved against the same specification (same sends, same waits, same result)',
        ],
    },
    'C12': {
        'contracts': ['pexpect.run.run'],
        'assumptions': [
            'the child is seen through oracles in force only while run() is verified: expect() returns any index of the pattern list or raises the unlisted EOF / TIMEOUT, with the stream effects proved for it under C01 / C04 (text match: before + after + pending == pending + received; EOF: before == all pending, cleared; TIMEOUT: nothing consumed); close() records the real exit status (C09/C10); send() and callbacks are counted',
            'event tables of up to two entries (list) / one entry (dict): the loop body treats each event by its own index, so the per-event obligations do not depend on the table length',
            'callbacks may return a string, something true or something false; their own behaviour is arbitrary',
        ],
    },
    'C17': {
        'contracts': [PXC + 'login', (PXC + 'set_unique_prompt', 'verify'), PXC + 'prompt', (PXC + 'sync_original_prompt', 'ctx:sync')],
        'assumptions': [
            'expect() is a non-deterministic oracle: it may return any index of the list it is given, or raise EOF / TIMEOUT exactly when that marker is not listed (C04); sendline / close / _spawn are recorded as dialogue events',
            'login() is analysed for explicit username, no ssh key / tunnels / config file (the option handling before the dialogue only builds the command line); all dialogue paths are enumerated (the dialogue is loop-free)',
            'sync_original_prompt() is an oracle returning True or False for login(); its own body is proved to report True only if the shell answered the second <enter> with at least one character (try_read_prompt and levenshtein_distance are oracles there); that prompt() delimits each command exactly depends on the remote shell honouring the unique prompt',
        ],
    },
    'C06': {
        'contracts': RP_CONTRACTS,
        'assumptions': [
            'environment (rely) model of the kernel side of a pty / pipe / descriptor (DESIGN.md 5.5): between any two system calls the peer may write and may hang up or exit; a readiness poll is true iff unread bytes exist or the peer is gone; os.read takes a non-empty prefix of the unread bytes or reports EOF iff none are left and the peer is gone; isalive() is False iff the peer has exited',
            'PopenSpawn: the reader thread and queue.Queue are modelled as a FIFO that the environment fills (chunks, then a None sentinel); socket.recv under the socket timeout: data, b"" at EOF, socket.timeout after t > 0, BlockingIOError when t == 0 and nothing is ready',
            'thread scheduling inside queue.Queue and the kernel really behaving like the model are outside the contracts',
        ],
    },
    'C04': {
        'contracts': [E + 'eof', E + 'timeout', E + 'errored', E + 'existing_data', E + 'expect_loop', SS + '__init__', SR + '__init__',
                      SB + 'expect_list', SB + 'expect_loop', SB + 'expect', SB + 'expect_exact', SB + 'read', SB + 'readline', SB + '__iter__',
                      ('pexpect.pty_spawn.spawn.__str__', 'ctx:str')] + READS,
        'assumptions': [
            'spawn.read_nonblocking is used through its interface contract (data | EOF | TIMEOUT | other OSError); that a transport reports EOF again without blocking after the first EOF is not under contract here (pty: blocking isalive() inside ptyprocess, see DESIGN.md section 7 #10)',
            'str(spawn) used to build the exception message is proved total (pty spawn.__str__; the other classes inherit object.__str__); str(searcher) and the __str__ of user-supplied log files are assumed total',
            'expect(), expect_exact(), read(), readline() and readlines() are under contract (the delimiter is the default, EOF); __iter__ is under contract too: it is iter(self.readline, <empty string of the object\'s own string type>); that iter(f, sentinel) calls f until the sentinel comes back is Python\'s definition, assumed',
        ],
    },
    'C05': {
        'contracts': [E + 'expect_loop', SB + 'expect_list', SB + 'expect_loop', SB + 'expect', SB + 'expect_exact', 'pexpect.utils.select_ignore_interrupts',
                      'pexpect.utils.poll_ignore_interrupts', 'pexpect.fdpexpect.fdspawn.read_nonblocking',
                      'pexpect.pty_spawn.spawn.read_nonblocking', 'pexpect.pty_spawn.spawn.waitnoecho',
                      'pexpect.popen_spawn.PopenSpawn.read_nonblocking', 'pexpect.socket_pexpect.SocketSpawn.read_nonblocking'],
        'assumptions': [
            'ghost clock (DESIGN.md 5.4): time.time() reads it, time.sleep(d) advances it by d, read_nonblocking(size, t) advances it by at most max(t, 0) and raises TIMEOUT only after t has elapsed; pure computation costs nothing',
            'the deadline bound is proved on the ghost clock relative to the read_nonblocking interface contract; that each transport meets that interface (select/poll wrappers, waitnoecho, PopenSpawn polling) is not yet under contract in this check',
            'termination with timeout=None is liveness and is not claimed',
        ],
    },
    'C09': {
        'contracts': [PTYC + 'isalive', PTYC + 'wait', PTYC + 'terminate', PTYC + 'close', POP + 'wait', 'pexpect.run.run'],
        'assumptions': [
            "ptyprocess 0.7.0 (contracts written from its source): isalive() returns False exactly when the child has been reaped and then freezes status/exitstatus/signalstatus at the child's real fate; wait() likewise; close(force) closes the descriptor and reaps the child or raises PtyProcessError",
            'that waitpid reports the real fate of the child is the kernel / ptyprocess; run() with withexitstatus is covered under C12',
        ],
    },
    'C10': {
        'contracts': [PTYC + 'isalive', PTYC + 'wait', PTYC + 'kill', PTYC + 'terminate', PTYC + 'close',
                      'pexpect.fdpexpect.fdspawn.close', 'pexpect.fdpexpect.fdspawn.isalive', ('pexpect.popen_spawn.PopenSpawn.__init__', 'ctx:ctor'),
                      (SB + '__exit__', 'pexpect.pty_spawn.spawn'), 'pexpect.pty_spawn.spawn.read_nonblocking',
                      'pexpect.socket_pexpect.SocketSpawn.close'],
        'assumptions': [
            'ptyprocess 0.7.0 contracts as for C09; os.kill / os.close / os.fstat as system calls (may raise OSError)',
            'descriptor tables and zombies are kernel state: "no leak" is relative to the ptyprocess contract; __del__ / garbage collection timing is not modelled',
            'terminate(force=True) always succeeding against stopped children is not provable from the ptyprocess contract and is not claimed',
        ],
    },
    'C08': {
        'contracts': _transport_contracts(['send', 'sendline', 'write', 'writelines']) +
                     [PTYC + 'sendcontrol', PTYC + 'sendeof', PTYC + 'sendintr'],
        'assumptions': [
            'a blocking os.write / pipe write / socket.sendall writes all bytes and os.write returns their number (partial writes on non-blocking descriptors supplied by the user are outside the contracts)',
            'the instance incremental encoder produces a function of the text (EncodeText) and is a homomorphism on concatenation (needed only to equate PopenSpawn.sendline, which sends line and separator separately, with the other transports)',
            'ptyprocess.sendcontrol/sendeof/sendintr write exactly one byte to the child and return (1, byte) (ptyprocess 0.7.0, read during design)',
            'time.sleep(delaybeforesend) requires a non-negative delay',
        ],
    },
    'C11': {
        'contracts': [SB + '_log'] + _transport_contracts(['send', 'sendline', 'write', 'writelines']) +
                     [PTYC + 'sendcontrol', PTYC + 'sendeof', PTYC + 'sendintr'] + READS + ['pexpect._async_w_await.PatternWaiter.data_received',
                      'pexpect.pty_spawn.spawn.__interact_copy'],
        'assumptions': [
            'log file objects implement write(text) / flush(); two log attributes do not alias the same file object',
            'interact() is not yet under contract in this check',
        ],
    },
    'C07': {
        'contracts': READS + ['pexpect._async_w_await.PatternWaiter.data_received', 'pexpect._async_w_await.expect_async',
                              ('pexpect.spawnbase.SpawnBase.__init__', 'ctx:ctor-base'), ('pexpect.fdpexpect.fdspawn.__init__', 'ctx:ctor'),
                              ('pexpect.socket_pexpect.SocketSpawn.__init__', 'ctx:ctor'), ('pexpect.popen_spawn.PopenSpawn.__init__', 'ctx:ctor'),
                              ('pexpect.pty_spawn.spawn.__init__', 'ctx:ctor')],
        'assumptions': [
            'codecs incremental decoders are homomorphisms on streams that do not end inside a character: dec(a) ++ dec(b) == dec(a ++ b) (sampled dynamically in the thorough tier); given that, feeding every chunk exactly once, in order, with final=False to the one decoder of the instance delivers the decoding of the whole stream',
            'os.read returns a non-empty chunk of at most the requested size, b"" or raises OSError',
            '_async_pre_await.py cannot be imported on this interpreter (dead code) and is not verified',
        ],
    },
    'C13': {
        'contracts': ['pexpect.utils.split_command_line', 'pexpect.utils.is_executable_file', 'pexpect.utils.which', 'pexpect.pty_spawn.spawn._spawn',
                      ('pexpect.popen_spawn.PopenSpawn.__init__', 'ctx:ctor'), ('pexpect.pty_spawn.spawn.__init__', 'ctx:ctor')],
        'extra': 'contracts.extra_c13',
        'technique_note': 'the quote/join round-trip law is a bounded check of the real function (labelled bounded, not counted as proved); everything else is proved',
        'bounds': {'*': {'alphabet': "a '\"\\\\", 'maxlen': 5}},
        'assumptions': ['str.isspace() decides what separates arguments (uninterpreted in the proof; the reference rules use the same predicate)',
                        'os.path.realpath/isfile/dirname/join and os.access are functions of their arguments during one lookup (the file system does not change under it); what the child finally sees (execvpe, chdir, TIOCSWINSZ) is ptyprocess / the kernel and is outside the contracts',
                        'the round-trip law (quote, join, split gives back the argument list) is checked on the real function by bounded enumeration only; what is proved is that the real loop is the documented automaton for every input',
                        'PopenSpawn: shlex.split is an oracle (some list of words; what it was asked is recorded) - that it splits by POSIX shell rules is the standard library; the command-line form is verified for os.name == "posix"',
                        "_spawn is verified for the string form (argv = split_command_line(command), any number of words, through a comprehension loop contract) and for explicit argument lists of length 1 and 2; the string form requires CmdHasWord(command), a spec predicate defined at split_command_line's call-site contract as 'the documented rules give at least one argument' (spawn('') fails with IndexError in the real code and asks for nothing to be started)"],
    },
    'C18': {
        'contracts': _screen_contracts() + _ansi_contracts(),
        'extra': 'contracts.extra_c18',
        'technique_note': 'the ANSI transition table is decided by an exhaustive abstract interpretation of the table the real constructor builds (stack-depth invariant per state); chunk independence follows from the fold lemma in lemmas/History.lean',
        'bounds': {'*': {'alphabet': 'xy', 'maxlen': 1, 'ints': [0, 1, 2, 3, 4],
                         'per_name': {'rows': [1, 2, 3], 'cols': [1, 2, 3], 'nextid': [0], 'cur_saved_r': [1, 2], 'cur_saved_c': [1, 2]}}},
        'assumptions': [
            'ANSI.process preserves the invariant by composition: FSM.process contract + per-action contracts + complete analysis of the extracted transition table (not a single engine proof)',
            'transition actions called through self.action(self) modify only the FSM memory and what hangs off it (proved for every action in ANSI.py, assumed for user-supplied actions)',
            'bytes input: the incremental decoder is a homomorphism on streams that do not end inside a character (codecs, sampled in the thorough tier); text input needs no assumption',
            'DoLog appends to ./log: open/write/close are assumed not to raise',
            'process() is a function of (terminal state, character): no hidden inputs',
        ],
    },
    'C19': {
        'contracts': _screen_contracts(),
        'bounds': {'*': {'alphabet': 'xy', 'maxlen': 1, 'ints': [0, 1, 2, 3, 4],
                         'per_name': {'rows': [1, 2, 3], 'cols': [1, 2, 3], 'nextid': [0], 'cur_saved_r': [1, 2], 'cur_saved_c': [1, 2]}}},
        'assumptions': [
            'list indexing, slicing and slice assignment on the grid follow CPython semantics (rows are shared objects; copy.deepcopy yields fresh rows)',
            'characters are text (str); the bytes-input path (_decode) is covered only as far as the representation invariant',
        ],
    },
    'C02': {
        'contracts': [SS + '__init__', SS + 'search', SR + '__init__', SR + 'search', E + 'do_search'] +
                     [(E + m, 'ctx:' + c) for c in ('exact', 're') for m in ('do_search', 'existing_data', 'new_data', 'expect_loop')] +
                     [SB + 'expect_list'],     # (expect / expect_exact carry the same C02+C04 clause and are checked under C04)
        'assumptions': [
            're.Pattern.search(buffer, pos) returns None or a match with pos <= start <= end <= len(buffer); which occurrence it selects (leftmost from pos) is the re engine\'s contract',
            'str.find / bytes.find(sub, start) returns -1 or the least position >= the clamped start at which sub occurs (assumed contract, cross-checked against CPython)',
        ],
    },
    'C01': {
        'contracts': [E + 'do_search', E + 'existing_data', E + 'new_data', E + 'eof', E + 'timeout', E + 'errored', E + 'expect_loop',
                      SB + '_set_buffer', SB + 'expect_list', SB + 'expect_loop', SB + 'expect', SB + 'expect_exact', SB + 'read', SB + 'readline', SB + 'readlines', SB + '__iter__'],
        'assumptions': [
            'io.BytesIO/StringIO behave as (content, position) with write-at-position, read-to-end, seek, tell, getvalue (differentially tested against CPython in the thorough tier)',
            'str/bytes slicing, concatenation and len follow CPython semantics (integers mathematical)',
            'a searcher passed in by the user satisfies the searcher interface contract (0 <= start <= end <= len(window) on a hit); searcher_string and searcher_re are proved to refine it under C02',
            'single-threaded execution inside each function under contract',
        ],
    },
}

LEVEL_TEXT = {
    '*': 'Every clause of the sidecar contracts of the functions this property depends on is a proof obligation generated from the current source and discharged by an SMT solver for all inputs, all iterations (loop invariants) and all call histories (object invariant + modular induction); callers are checked against callee contracts, not bodies. Relative to the assumed contracts of library calls listed in the evidence.',
}

NOT_APPLICABLE = {}
