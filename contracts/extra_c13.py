"""C13: bounded round-trip law on the real function (labelled bounded)."""
import json, os, subprocess


def run(tier, repo, here, pyrun):
    env = dict(os.environ, VERIF_REPO=repo, PYTHONPATH=repo)
    req = {'maxlen': 2, 'maxargs': 2} if tier == 'quick' else {'maxlen': 3, 'maxargs': 2}
    p = subprocess.run([pyrun, os.path.join(here, 'harness', 'roundtrip_split.py')], input=json.dumps(req),
                       capture_output=True, text=True, env=env)
    out = {'obligations': 0, 'discharged': 0, 'violations': [], 'trusted': [], 'notes': {}}
    if p.returncode != 0:
        out['fault'] = 'round-trip harness failed: ' + p.stderr[-400:]
        return out
    r = json.loads(p.stdout)
    out['notes']['bounded_round_trip'] = {'label': 'bounded (not counted as proved)', 'evaluations': r['evaluations'],
                                          'bounds': r['bounds']}
    if r['failure']:
        out['violations'].append({'contract': 'pexpect.utils.split_command_line', 'obligation': 'bounded.round-trip-law',
                                  'kind': 'bounded-search-counterexample', 'replay': r['failure']})
    return out
