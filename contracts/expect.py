"""Contracts for pexpect/expect.py: Expecter (C01, C03, C04, C05) and the two searchers (C02)."""
from pyvc.types import *
from pyvc.cbase import Contract, LoopSpec, Ret, Raises
from pyvc.spec import *
from .common import *


def W_ok(W):
    """Documented domain of the search window: None or an integer >= 1 (DESIGN.md C03)."""
    return True if W is None else W >= 1


def expecter_shape(b, with_lookback=True):
    sp, kind = spawn_shape(b)
    se = searcher_shape(b)
    W = b.opt('W', lambda: b.int('W'))
    L = b.opt('lookback', lambda: b.int('lookback')) if with_lookback else b.none()
    me = b.obj('self', 'pexpect.expect.Expecter', sealed=True, spawn=sp, searcher=se,
               searchwindowsize=W, lookback=L)
    return me, sp, se, kind


class SearcherSearch(Contract):
    """Interface contract of searcher.search(buffer, freshlen, searchwindowsize).
    searcher_string.search and searcher_re.search are proved to refine it (C02)."""
    params = ['self', 'buffer', 'freshlen', 'searchwindowsize']
    defaults = {'searchwindowsize': None}

    def outcomes(self, v):
        return [Ret(T.Int, 'hit'), Ret(T.Int, 'miss')]

    def modifies(self, v, out):
        if out.label == 'miss':
            return []
        se = v.old.self
        return [(se, 'start', T.Int), (se, 'end', T.Int), (se, 'match', T.Any)]

    def ensures(self, v):
        if v.label == 'miss':
            return [('miss', eq(v.result, -1))]
        se = v.new.self
        return [('hit', And(v.result >= 0, 0 <= se.start, se.start <= se.end,
                            se.end <= length(v.old.buffer)))]


class SearcherStr(Contract):
    params = ['self']

    def outcomes(self, v):
        return [Ret(T.Text)]


def pend_of(sp):
    return sp._before.content


def sbuf_of(sp):
    return sp._buffer.content


def K_cover(sp, W, L):
    """C03 coverage invariant between searches: the search buffer (a suffix of the pending text, INV_buf) still
    holds everything a later search may need -- all pending text, or at least its last W characters under a window,
    or its last L-1 characters under a look-back L (maintain = searchwindowsize or lookback in do_search)."""
    B, P = sbuf_of(sp), pend_of(sp)
    whole = eq(B, P)
    if W is not None:
        return Or(length(B) >= W, whole)
    if L is None:
        return whole
    return And(Implies(eq(L, 0), whole), Implies(L > 0, Or(length(B) >= L - 1, whole)))


def R_region(window, freshlen, W, L, P):
    """C03: what do_search is handed.  Under a window W: exactly the last W characters of the pending text (the
    naive region).  Without one: all pending text, or - with a look-back L - a suffix of it that reaches at least L-1
    characters behind the fresh data (an occurrence of a string of length <= L that is not wholly old text starts there)."""
    if W is not None:
        return [('C03:window-is-last-W-of-pending', eq(window, last_n(P, W)))]
    if L is None:
        return [('C03:window-is-all-pending', eq(window, P))]
    return [('C03:window-is-all-pending-without-lookback', Implies(eq(L, 0), eq(window, P))),
            ('C03:window-covers-fresh-plus-lookback', Implies(L > 0, And(freshlen >= 0, Or(eq(window, P), length(window) >= freshlen + L - 1))))]


def searcher_list(se):
    """the (index, pattern) list of a real searcher object, None for a searcher known only through the interface"""
    if se.has('_strings'):
        return se._strings
    if se.has('_searches'):
        return se._searches
    return None


def listed_index(v, se, result):
    """C02 at the level of the Expecter: a reported index is the list index of one of the searcher's own patterns.
    For the two real searchers this is proved in the verification contexts `exact` (searcher_string) and `re`
    (searcher_re), contracts/exact.py; a searcher known only through the interface has no list and gets no clause."""
    lst = searcher_list(se)
    if lst is None:
        return []
    bk = witness(v, 'ss.bk', lst.len, lambda k: lst.get(k)[0] == result)
    return [('C02:hit.index-is-one-of-the-searchers-patterns', And(0 <= bk, bk < lst.len, eq(lst.get(bk)[0], result)))]


def draw_listed_witness(v, se):
    if not getattr(v, 'concrete', False) and searcher_list(se) is not None:
        v.g['ss.bk'] = v.draw(T.Int, 'xbk')


class DoSearch(Contract):
    name = 'pexpect.expect.Expecter.do_search'
    props = ('C01', 'C02', 'C03')

    def shape(self, b):
        me, sp, se, kind = expecter_shape(b)
        return dict(self=me, window=b.str('window', kind), freshlen=b.int('freshlen'))

    def requires(self, v):
        sp = v.a.self.spawn
        me = v.a.self
        return [('inv', INV_buf(sp)),
                ('window-suffix', suffix_of(v.a.window, pend_of(sp))),
                ('W-domain', W_ok(me.searchwindowsize)),
                ('L-domain', True if me.lookback is None else me.lookback >= 0)] + \
            R_region(v.a.window, v.a.freshlen, me.searchwindowsize, me.lookback, pend_of(sp)) + \
            [('C03:buffer-holds-the-window', suffix_of(v.a.window, sbuf_of(sp)))]

    def outcomes(self, v):
        return [Ret(T.Int, 'hit'), Ret(T.NoneT, 'miss')]

    def modifies(self, v, out):
        me = v.old.self
        sp, se = me.spawn, me.searcher
        k = io_kind(sp._before)
        m = [(se, 'start', T.Int), (se, 'end', T.Int), (se, 'match', T.Any)] if out.label == 'hit' else []
        m += [(sp, '_buffer', TIo(k))]
        if out.label == 'hit':
            m += [(sp, '_before', TIo(k)), (sp, 'before', TStr(k)), (sp, 'after', TStr(k)),
                  (sp, 'match', T.Any), (sp, 'match_index', T.Int)]
        return m

    def ensures(self, v):
        old, new = v.old.self.spawn, v.new.self.spawn
        se = v.new.self.searcher
        pend = pend_of(old)
        win = v.old.window
        out = [('inv', INV_buf(new))]
        if v.result is None:
            out += [('miss.pending-unchanged', eq(pend_of(new), pend)),
                    ('miss.nothing-reported', And(same(new.before, old.before), same(new.after, old.after),
                                                  same(new.match, old.match), same(new.match_index, old.match_index))),
                    ('C03:miss.buffer-still-covers', K_cover(new, v.old.self.searchwindowsize, v.old.self.lookback))]
        else:
            out += [
                # C01: conservation - what is handed back plus what stays pending is what was pending
                ('hit.conserve', eq(cat(new.before, new.after, pend_of(new)), pend)),
                ('hit.buffer-is-pending', eq(sbuf_of(new), pend_of(new))),
                # C02: after is the searcher's span of the window, match/index are the searcher's
                ('hit.after-is-span', eq(new.after, sub(win, se.start, se.end))),
                ('hit.rest-follows-span', eq(pend_of(new), sub(win, se.end, length(win)))),
                ('hit.match', And(same(new.match, se.match), eq(new.match_index, v.result), v.result >= 0)),
            ] + listed_index(v, v.old.self.searcher, v.result)
        return out

    def effects(self, v):
        draw_listed_witness(v, v.old.self.searcher)


class ExistingData(Contract):
    name = 'pexpect.expect.Expecter.existing_data'
    props = ('C01', 'C03')

    def shape(self, b):
        me, sp, se, kind = expecter_shape(b)
        return dict(self=me)

    def requires(self, v):
        me = v.a.self
        return [('inv', INV_buf(me.spawn)), ('W-domain', W_ok(me.searchwindowsize)),
                ('L-domain', True if me.lookback is None else me.lookback >= 0)]

    outcomes = DoSearch.outcomes
    modifies = DoSearch.modifies

    def effects(self, v):
        v.g['searched_pending'] = True
        v.g['expecter_obj'] = v.args_v['self']      # for the awaited form: who is waiting (contracts/aio.py)
        draw_listed_witness(v, v.old.self.searcher)

    def ensures(self, v):
        old, new = v.old.self.spawn, v.new.self.spawn
        pend = pend_of(old)
        out = [('inv', INV_buf(new))]
        if v.result is None:
            out += [('miss.pending-unchanged', eq(pend_of(new), pend)),
                    ('miss.nothing-reported', And(same(new.before, old.before), same(new.after, old.after),
                                                  same(new.match, old.match), same(new.match_index, old.match_index))),
                    ('C03:miss.buffer-still-covers', K_cover(new, v.old.self.searchwindowsize, v.old.self.lookback))]
        else:
            out += [('hit.conserve', eq(cat(new.before, new.after, pend_of(new)), pend)),
                    ('hit.buffer-is-pending', eq(sbuf_of(new), pend_of(new))),
                    ('hit.match', And(same(new.match, v.new.self.searcher.match), eq(new.match_index, v.result),
                                      v.result >= 0))] + listed_index(v, v.old.self.searcher, v.result)
        return out


class NewData(Contract):
    name = 'pexpect.expect.Expecter.new_data'
    props = ('C01', 'C03')

    def shape(self, b):
        me, sp, se, kind = expecter_shape(b)
        return dict(self=me, data=b.str('data', kind))

    def requires(self, v):
        me = v.a.self
        return ExistingData.requires(self, v) + \
            [('C03:buffer-covers', K_cover(me.spawn, me.searchwindowsize, me.lookback))]

    outcomes = DoSearch.outcomes

    def modifies(self, v, out):
        m = DoSearch.modifies(self, v, out)
        sp = v.old.self.spawn
        k = io_kind(sp._before)
        if out.label != 'hit':
            m += [(sp._before, 'content', TStr(k)), (sp._before, 'pos', T.Int)]
        return m

    def effects(self, v):
        draw_listed_witness(v, v.old.self.searcher)

    def ensures(self, v):
        old, new = v.old.self.spawn, v.new.self.spawn
        pend = cat(pend_of(old), v.old.data)          # this is where the received text R grows
        out = [('inv', INV_buf(new))]
        if v.result is None:
            out += [('miss.pending-grows-by-data', eq(pend_of(new), pend)),
                    ('miss.nothing-reported', And(same(new.before, old.before), same(new.after, old.after),
                                                  same(new.match, old.match), same(new.match_index, old.match_index))),
                    ('C03:miss.buffer-still-covers', K_cover(new, v.old.self.searchwindowsize, v.old.self.lookback))]
        else:
            out += [('hit.conserve', eq(cat(new.before, new.after, pend_of(new)), pend)),
                    ('hit.buffer-is-pending', eq(sbuf_of(new), pend_of(new))),
                    ('hit.match', And(same(new.match, v.new.self.searcher.match), eq(new.match_index, v.result),
                                      v.result >= 0))] + listed_index(v, v.old.self.searcher, v.result)
        return out


class Eof(Contract):
    name = 'pexpect.expect.Expecter.eof'
    props = ('C01', 'C04')

    def shape(self, b):
        me, sp, se, kind = expecter_shape(b)
        err = b.opt('err', lambda: b.obj('err', 'EOF', sealed=False))
        return dict(self=me, err=err)

    def requires(self, v):
        return [('inv', INV_buf(v.a.self.spawn))]

    def outcomes(self, v):
        return [Ret(T.Int, 'listed'), Raises('EOF', 'unlisted')]

    def exits(self, v):
        return ('EOF',)

    def modifies(self, v, out):
        sp = v.old.self.spawn
        k = io_kind(sp._before)
        m = [(sp, '_buffer', TIo(k)), (sp, '_before', TIo(k)), (sp, 'before', TStr(k)), (sp, 'after', T('Cls', 'EOF'))]
        if out.label == 'listed':
            m += [(sp, 'match', T('Cls', 'EOF')), (sp, 'match_index', T.Int)]
        else:
            m += [(sp, 'match', T.NoneT), (sp, 'match_index', T.NoneT)]
        return m

    def ensures(self, v):
        old, new = v.old.self.spawn, v.new.self.spawn
        idx = v.old.self.searcher.eof_index
        EOF = ClassConst('EOF')
        out = [('inv', INV_buf(new)),
               ('before-is-all-pending', eq(new.before, pend_of(old))),
               ('pending-cleared', And(eq(pend_of(new), ''), eq(sbuf_of(new), ''))),
               ('after-is-EOF', eq(new.after, EOF))]
        if v.raised is None:
            out += [('listed.index', And(idx >= 0, eq(v.result, idx), eq(new.match, EOF), eq(new.match_index, idx)))]
        else:
            out += [('unlisted.raises-EOF', And(v.raised == 'EOF', Not(idx >= 0))),
                    ('unlisted.match-none', And(is_none(new.match), is_none(new.match_index)))]
        return out


class Timeout(Contract):
    name = 'pexpect.expect.Expecter.timeout'
    props = ('C01', 'C04')

    def shape(self, b):
        me, sp, se, kind = expecter_shape(b)
        err = b.opt('err', lambda: b.obj('err', 'TIMEOUT', sealed=False))
        return dict(self=me, err=err)

    def requires(self, v):
        return [('inv', INV_buf(v.a.self.spawn))]

    def outcomes(self, v):
        return [Ret(T.Int, 'listed'), Raises('TIMEOUT', 'unlisted')]

    def exits(self, v):
        return ('TIMEOUT',)

    def modifies(self, v, out):
        sp = v.old.self.spawn
        k = io_kind(sp._before)
        m = [(sp, 'before', TStr(k)), (sp, 'after', T('Cls', 'TIMEOUT'))]
        if out.label == 'listed':
            m += [(sp, 'match', T('Cls', 'TIMEOUT')), (sp, 'match_index', T.Int)]
        else:
            m += [(sp, 'match', T.NoneT), (sp, 'match_index', T.NoneT)]
        return m

    def ensures(self, v):
        old, new = v.old.self.spawn, v.new.self.spawn
        idx = v.old.self.searcher.timeout_index
        TO = ClassConst('TIMEOUT')
        out = [('inv', INV_buf(new)),
               ('before-is-all-pending', eq(new.before, pend_of(old))),
               # C01: a TIMEOUT consumes nothing
               ('consumes-nothing', And(eq(pend_of(new), pend_of(old)), eq(sbuf_of(new), sbuf_of(old)))),
               ('after-is-TIMEOUT', eq(new.after, TO))]
        if v.raised is None:
            out += [('listed.index', And(idx >= 0, eq(v.result, idx), eq(new.match, TO), eq(new.match_index, idx)))]
        else:
            out += [('unlisted.raises-TIMEOUT', And(v.raised == 'TIMEOUT', Not(idx >= 0))),
                    ('unlisted.match-none', And(is_none(new.match), is_none(new.match_index)))]
        return out


class Errored(Contract):
    name = 'pexpect.expect.Expecter.errored'
    props = ('C01', 'C04')

    def shape(self, b):
        me, sp, se, kind = expecter_shape(b)
        return dict(self=me)

    def requires(self, v):
        return [('inv', INV_buf(v.a.self.spawn))]

    def modifies(self, v, out):
        sp = v.old.self.spawn
        k = io_kind(sp._before)
        return [(sp, 'before', TStr(k)), (sp, 'after', T.NoneT), (sp, 'match', T.NoneT), (sp, 'match_index', T.NoneT)]

    def ensures(self, v):
        old, new = v.old.self.spawn, v.new.self.spawn
        return [('inv', INV_buf(new)),
                ('before-is-all-pending', eq(new.before, pend_of(old))),
                ('consumes-nothing', And(eq(pend_of(new), pend_of(old)), eq(sbuf_of(new), sbuf_of(old)))),
                ('cleared', And(is_none(new.after), is_none(new.match), is_none(new.match_index)))]


def ghost_clock(module, g):
    """concrete mode: the module's `time` is replaced by the ghost clock for the duration of the call"""
    import importlib
    mod = importlib.import_module(module)
    real = mod.time

    class Clock:
        @staticmethod
        def time():
            return g['clk']

        @staticmethod
        def sleep(d):
            g['clk'] = g['clk'] + d
    mod.time = Clock

    def undo():
        mod.time = real
    return undo


class ExpectLoopInv(LoopSpec):
    """while True: read, search.  Invariant: buffer invariant, accounting (pending text is what was
    pending at entry plus what has been received since), and the deadline bookkeeping."""
    def vars(self, v):
        k = io_kind(v.l.spawn._before)
        d = {'incoming': TStr(k), 'idx': T.NoneT}
        if v.l.timeout is not None:
            d['timeout'] = T.Real
        return d

    def ghost(self, v):
        return {'R': TStr(io_kind(v.l.spawn._before)), 'clk': T.Real, 'nreads': T.Int}

    def modifies(self, v):
        sp = v.l.spawn
        k = io_kind(sp._before)
        return [(sp, '_buffer', TIo(k)), (sp._before, 'content', TStr(k)), (sp._before, 'pos', T.Int)]

    def invariant(self, v):
        sp = v.l.spawn
        old = v.old.self.spawn
        out = [('inv', INV_buf(sp)),
               ('accounting', eq(pend_of(sp), cat(pend_of(old), v.g['R']))),
               ('nothing-reported', And(same(sp.before, old.before), same(sp.after, old.after),
                                        same(sp.match, old.match), same(sp.match_index, old.match_index))),
               ('clock-forward', v.g['clk'] >= v.g0['clk']),
               ('reads-counted', v.g['nreads'] >= v.g0['nreads']),
               ('C03:buffer-covers', K_cover(sp, v.old.self.searchwindowsize, v.old.self.lookback))]
        if v.old.timeout is not None:
            T0 = v.old.timeout
            d = sp.delayafterread
            slack = 0 if d is None else d
            out += [('deadline', And(eq(v.l.end_time, v.g0['clk'] + T0),
                                     eq(v.l.timeout, v.l.end_time - v.g['clk']),
                                     v.g['clk'] - v.g0['clk'] <= smax(T0, 0) + slack)),
                    # a deadline that has not passed yet is only given up on after the transport was asked
                    ('polled-before-giving-up', Or(v.g['nreads'] > v.g0['nreads'], eq(v.l.timeout, T0)))]
        return out


class ExpectLoop(Contract):
    name = 'pexpect.expect.Expecter.expect_loop'
    props = ('C01', 'C04', 'C05')
    loops = {0: ExpectLoopInv()}

    def shape(self, b):
        sp, kind = spawn_shape(b, loop=True)
        se = searcher_shape(b)
        W = b.opt('W', lambda: b.int('W'))
        L = b.opt('lookback', lambda: b.int('lookback'))
        me = b.obj('self', 'pexpect.expect.Expecter', sealed=True, spawn=sp, searcher=se,
                   searchwindowsize=W, lookback=L)
        b.ghost('R', b'' if (kind == 'b' and hasattr(b, 'source')) else '')
        b.ghost('clk', b.real('clk0'))
        b.ghost('nreads', 0)
        return dict(self=me, timeout=b.opt('timeout', lambda: b.real('timeout')))

    def instrument(self, args, g):
        return ghost_clock('pexpect.expect', g)

    def requires(self, v):
        me = v.a.self
        d = me.spawn.delayafterread
        return [('inv', INV_buf(me.spawn)), ('W-domain', W_ok(me.searchwindowsize)),
                ('L-domain', True if me.lookback is None else me.lookback >= 0),
                ('delay-nonneg', True if d is None else d >= 0),
                ('maxread-positive', me.spawn.maxread >= 1)]

    def outcomes(self, v):
        return expect_outcomes()

    def exits(self, v):
        return ('EOF', 'TIMEOUT', 'OSError')

    def modifies(self, v, out):
        me = v.old.self
        return expect_modifies(me.spawn, out.label, me.searcher)

    def effects(self, v):
        expect_effects(v, v.old.self.spawn)
        draw_listed_witness(v, v.old.self.searcher)

    def ensures(self, v):
        me = v.old.self
        se = me.searcher
        out = expect_outcome_post(v, me.spawn, v.new.self.spawn, v.old.timeout,
                                  eof_index=se.eof_index, timeout_index=se.timeout_index,
                                  new_searcher=v.new.self.searcher)
        EOFc, TOc = ClassConst('EOF'), ClassConst('TIMEOUT')
        new = v.new.self.spawn
        if v.raised is None and not (eq(new.after, EOFc) is True) and not (eq(new.after, TOc) is True):
            out += listed_index(v, se, v.result)
        return out


def expect_outcome_post(v, old, new, T0, eof_index=None, timeout_index=None, new_searcher=None, plist=None):
    """Postcondition shared by every expect-family entry point (C01 accounting, C04 outcome table, C05
    deadline on the ghost clock).  old/new: the spawn before/after; T0: the effective timeout; the EOF /
    TIMEOUT markers are described either by a searcher's indices or by the pattern list itself."""
    EOFc, TOc = ClassConst('EOF'), ClassConst('TIMEOUT')
    if getattr(v, 'rx', None) is None:      # proof side: the function's own ghosts (R starts empty)
        rx, dt = v.g['R'], v.g['clk'] - v.g0['clk']
        nr = v.g.get('nreads', 0) - v.g0.get('nreads', 0)
    else:
        rx, dt, nr = v.rx, v.dt, v.nr
    total = cat(pend_of(old), rx)
    out = [('inv', INV_buf(new))]
    is_eof = eq(new.after, EOFc) is True
    is_to = eq(new.after, TOc) is True

    def listed(kind, r):
        if plist is not None:
            test = pat_is_eof if kind == 'eof' else pat_is_timeout
            return And(0 <= r, r < plist.len, test(plist.get(r)))
        idx = eof_index if kind == 'eof' else timeout_index
        return And(idx >= 0, eq(r, idx))

    def unlisted_clauses(kind, tag):
        if plist is not None:
            test = pat_is_eof if kind == 'eof' else pat_is_timeout
            return [(tag, forall(0, plist.len, lambda j: Not(test(plist.get(j)))))]
        idx = eof_index if kind == 'eof' else timeout_index
        return [(tag, Not(idx >= 0))]

    if v.raised is None and not is_eof and not is_to:
        out += [('C01:hit.conserve', eq(cat(new.before, new.after, pend_of(new)), total)),
                ('C01:hit.buffer-is-pending', eq(sbuf_of(new), pend_of(new))),
                ('C02+C04:hit.match-index', And(eq(new.match_index, v.result), v.result >= 0))]
        if plist is not None:
            out.append(('C02+C04:hit.index-names-a-listed-pattern', And(v.result < plist.len, pat_is_text(plist.get(v.result)))))
        if new_searcher is not None:
            out.append(('C02:hit.match-object', same(new.match, new_searcher.match)))
    elif is_eof:
        out += [('C01+C04:eof.before-is-all', eq(new.before, total)),
                ('C01+C04:eof.pending-cleared', And(eq(pend_of(new), ''), eq(sbuf_of(new), '')))]
        if v.raised is None:
            out += [('C04:eof.listed', And(listed('eof', v.result), eq(new.match, EOFc), eq(new.match_index, v.result)))]
        else:
            out += [('C04:eof.raises-EOF', And(v.raised == 'EOF', is_none(new.match), is_none(new.match_index)))]
            out += unlisted_clauses('eof', 'C04:eof.raised-only-if-unlisted')
    elif is_to:
        out += [('C01+C04:timeout.before-is-all', eq(new.before, total)),
                ('C01:timeout.consumes-nothing', eq(pend_of(new), total))]
        if v.raised is None:
            out += [('C04:timeout.listed', And(listed('timeout', v.result), eq(new.match, TOc), eq(new.match_index, v.result)))]
        else:
            out += [('C04:timeout.raises-TIMEOUT', And(v.raised == 'TIMEOUT', is_none(new.match), is_none(new.match_index)))]
            out += unlisted_clauses('timeout', 'C04:timeout.raised-only-if-unlisted')
        # C05: never TIMEOUT without a finite timeout, and never before it has elapsed
        out += [('C05:timeout.only-with-finite-timeout', T0 is not None),
                ('C05:timeout.not-early', True if T0 is None else dt >= T0),
                # timeout=0 still examines whatever is immediately readable
                ('C05:timeout.polls-the-transport-unless-already-expired', True if T0 is None else Implies(T0 >= 0, nr >= 1))]
    else:
        out += [('C01+C04:error.before-is-all', eq(new.before, total)),
                ('C01:error.consumes-nothing', eq(pend_of(new), total)),
                ('C04:error.reraised', And(v.raised is not None, is_none(new.after), is_none(new.match),
                                           is_none(new.match_index)))]
    if T0 is not None:
        d = old.delayafterread
        out.append(('C05:deadline.overall-bound', dt <= smax(T0, 0) + (0 if d is None else d)))
    out.append(('C05:clock-forward', dt >= 0))
    out.append(('reads-counted', nr >= 0))
    return out


def expect_outcomes():
    return [Ret(T.Int, 'hit'), Ret(T.Int, 'eof-listed'), Ret(T.Int, 'timeout-listed'),
            Raises('EOF'), Raises('TIMEOUT'), Raises('OSError', 'error')]


def expect_modifies(sp, lab, se=None):
    """Locations an expect-family call may change, per outcome."""
    k = io_kind(sp._before)
    m = [(sp, '_buffer', TIo(k)), (sp, '_before', TIo(k)), (sp, 'before', TStr(k))]
    if lab == 'hit':
        if se is not None:
            m += [(se, 'start', T.Int), (se, 'end', T.Int), (se, 'match', T.Any)]
        m += [(sp, 'after', TStr(k)), (sp, 'match', T.Any), (sp, 'match_index', T.Int)]
    elif lab in ('eof-listed', 'EOF'):
        m += [(sp, 'after', TCls('EOF'))]
        m += [(sp, 'match', TCls('EOF')), (sp, 'match_index', T.Int)] if lab == 'eof-listed' else \
             [(sp, 'match', T.NoneT), (sp, 'match_index', T.NoneT)]
    elif lab in ('timeout-listed', 'TIMEOUT'):
        m += [(sp, 'after', TCls('TIMEOUT'))]
        m += [(sp, 'match', TCls('TIMEOUT')), (sp, 'match_index', T.Int)] if lab == 'timeout-listed' else \
             [(sp, 'match', T.NoneT), (sp, 'match_index', T.NoneT)]
    else:
        m += [(sp, 'after', T.NoneT), (sp, 'match', T.NoneT), (sp, 'match_index', T.NoneT)]
    return m


def expect_effects(v, sp):
    """What a caller sees of an expect-family call: some text rx was received, some time dt passed."""
    k = io_kind(sp._before)
    v.rx = v.draw(TStr(k), 'rx')
    v.dt = v.draw(T.Real, 'dt')
    v.g['R'] = cat(v.g['R'], v.rx)
    v.g['clk'] = v.g['clk'] + v.dt
    v.nr = v.draw(T.Int, 'nreads')
    v.g['nreads'] = v.g.get('nreads', 0) + v.nr


# =============================================================================================
# C02: the two searchers
# =============================================================================================
SS = 'pexpect.expect.searcher_string'


def ascending(lst):
    """Class invariant of both searchers: original list indices, non-negative and strictly ascending."""
    n = lst.len
    return [('idx-nonneg', forall(0, n, lambda k: lst.get(k)[0] >= 0)),
            ('idx-ascending', forall(0, n, lambda j: forall(j + 1, n, lambda k: lst.get(j)[0] < lst.get(k)[0])))]


def ss_off(v_buffer, freshlen, W, s):
    return -(freshlen + length(s)) if W is None else -W


class SearcherStringSearchInv(LoopSpec):
    def vars(self, v):
        k = 's' if v.l.self._kind == 's' else 'b'
        return {'first_match': TOpt(T.Int), 'best_index': T.Int, 'best_match': TStr(k), 'n': T.Int,
                'offset': T.Int, 'index': T.Int, 's': TStr(k)}

    ghost = {'bk': T.Int}

    def F(self, v, k):
        lst = v.old.self._strings
        s = lst.get(k)[1]
        return find_from(v.old.buffer, s, ss_off(v.old.buffer, v.old.freshlen, v.old.searchwindowsize, s))

    def invariant(self, v):
        lst = v.old.self._strings
        i = v.l._i0
        fm = v.l.first_match
        none = is_none(fm)
        fmv = some(fm) if not (fm is None) else 0
        bk = v.g['bk']
        F = lambda k: self.F(v, k)
        if fm is None:        # loop entry: nothing found yet, best_* not bound
            return [('none-so-far', forall(0, i, lambda k: eq(F(k), -1)))]
        return [
            ('none-so-far', forall(0, i, lambda k: Implies(none, eq(F(k), -1)))),
            ('witness', Implies(Not(none), And(0 <= bk, bk < i, eq(lst.get(bk)[0], v.l.best_index),
                                               eq(lst.get(bk)[1], v.l.best_match), eq(F(bk), fmv), fmv >= 0))),
            ('leftmost', forall(0, i, lambda k: Implies(And(Not(none), F(k) >= 0), fmv <= F(k)))),
            ('first-listed-on-tie', forall(0, i, lambda k: Implies(And(Not(none), eq(F(k), fmv)), bk <= k))),
        ]

    def ghost_step(self, head, end):
        fm = head.l.first_match
        n = end.l.n
        upd = And(n >= 0, Or(is_none(fm), n < some(fm)))
        end.g['bk'] = ite(upd, head.l._i0, head.g['bk'])


class SearcherStringSearch(Contract):
    name = SS + '.search'
    props = ('C02',)
    loops = {0: SearcherStringSearchInv()}

    def shape(self, b):
        kind = b.choice('mode', ['b', 's'])
        me = b.obj('self', SS, sealed=True, eof_index=b.int('eof_index'), timeout_index=b.int('timeout_index'),
                   _strings=b.symlist('_strings', [('idx', T.Int), ('s', TStr(kind))]),
                   longest_string=b.int('longest_string'), _kind=b.const(kind),
                   start=b.any('start0'), end=b.any('end0'), match=b.any('match0'))
        b.ghost('bk', 0)
        return dict(self=me, buffer=b.str('buffer', kind), freshlen=b.int('freshlen'),
                    searchwindowsize=b.opt('W', lambda: b.int('W')))

    def requires(self, v):
        return ascending(v.a.self._strings)

    def outcomes(self, v):
        return [Ret(T.Int, 'hit'), Ret(T.Int, 'miss')]

    def modifies(self, v, out):
        if out.label == 'miss':
            return []
        se = v.old.self
        k = se._kind
        return [(se, 'start', T.Int), (se, 'end', T.Int), (se, 'match', TStr(k))]

    def effects(self, v):
        v.bk = v.draw(T.Int, 'bk')
        v.g['ss.bk'] = v.bk          # which list entry matched (witness, used by the C03 contracts of the callers)

    def ensures(self, v):
        me, new = v.old.self, v.new.self
        lst = me._strings
        buf = v.old.buffer
        F = lambda k: find_from(buf, lst.get(k)[1], ss_off(buf, v.old.freshlen, v.old.searchwindowsize, lst.get(k)[1]))
        n = lst.len
        miss_f = eq(v.result, -1)
        bk = witness(v, 'bk', n, lambda k: lst.get(k)[0] == v.result and F(k) == new.start)
        out = [
            # miss: no listed string occurs at or after its search start
            ('miss.none-found', forall(0, n, lambda k: Implies(miss_f, eq(F(k), -1)))),
            ('miss.frame', Implies(miss_f, And(same(new.start, me.start), same(new.end, me.end), same(new.match, me.match)))),
        ]
        if is_sym(miss_f) or not miss_f:
            st, en, m = new.start, new.end, new.match
            hitc = Not(miss_f)
            if isinstance(st, Opt):
                st = some(st)
            ok_types = (is_sym(st) and str(st.sort()) == 'Int') or (isinstance(st, int) and not isinstance(st, bool))
            if not ok_types:
                out.append(('hit.sets-span', Implies(hitc, False)))
                return out
            out += [
                ('hit.witness', Implies(hitc, And(0 <= bk, bk < n, eq(v.result, lst.get(bk)[0]), eq(st, F(bk)), st >= 0,
                                                   eq(en, st + length(lst.get(bk)[1])), eq(m, lst.get(bk)[1])))),
                # genuine: the reported span of the buffer is the listed string (via the assumed contract of find)
                ('hit.genuine', Implies(hitc, eq(sub(buf, st, en), m))),
                ('hit.leftmost', forall(0, n, lambda k: Implies(And(hitc, F(k) >= 0), st <= F(k)))),
                ('hit.first-listed-on-tie', forall(0, n, lambda k: Implies(And(hitc, eq(F(k), st)), bk <= k))),
                ('hit.refines-interface', Implies(hitc, And(v.result >= 0, 0 <= st, st <= en, en <= length(buf)))),
            ]
        return out


# ---- searcher construction -----------------------------------------------------------------------
def searcher_init_inv(me, P, lst, i, pos, with_longest):
    """Facts about a searcher built from the first i entries of the pattern list P (also the post, i = len(P))."""
    n = lst.len
    out = [
        ('len-bound', And(n <= i, n >= 0)),
        ('genuine', forall(0, n, lambda k: And(0 <= lst.get(k)[0], lst.get(k)[0] < i,
                                               pat_is_text(P.get(lst.get(k)[0])),
                                               eq(lst.get(k)[1], pat_val(P.get(lst.get(k)[0])))))),
        ('ascending', forall(0, n, lambda j: forall(j + 1, n, lambda k: lst.get(j)[0] < lst.get(k)[0]))),
        ('complete', forall(0, i, lambda j: Implies(pat_is_text(P.get(j)),
                                                    And(0 <= select(pos, j), select(pos, j) < n,
                                                        eq(lst.get(select(pos, j))[0], j))))),
        ('eof-index', And(-1 <= me.eof_index, me.eof_index < i,
                          Implies(me.eof_index >= 0, pat_is_eof(P.get(smax(me.eof_index, 0)))))),
        ('eof-listed-is-found', forall(0, i, lambda j: Implies(pat_is_eof(P.get(j)), me.eof_index >= 0))),
        ('timeout-index', And(-1 <= me.timeout_index, me.timeout_index < i,
                              Implies(me.timeout_index >= 0, pat_is_timeout(P.get(smax(me.timeout_index, 0)))))),
        ('timeout-listed-is-found', forall(0, i, lambda j: Implies(pat_is_timeout(P.get(j)), me.timeout_index >= 0))),
    ]
    if with_longest:
        out += [('longest', And(me.longest_string >= 0,)),
                ('longest-bounds-all', forall(0, n, lambda k: length(lst.get(k)[1]) <= me.longest_string))]
    return out


class SearcherInitInv(LoopSpec):
    field = '_strings'
    with_longest = True

    def elem_type(self, v):
        return TStr(v.old.self._kind)

    def vars(self, v):
        return {'n': T.Int, 's': TPat(self.elem_type(v))}

    ghost = {'pos': TArray(T.Int)}

    def modifies(self, v):
        me = v.l.self
        m = [(me, 'eof_index', T.Int), (me, 'timeout_index', T.Int),
             (me, self.field, TSymList((('idx', T.Int), ('s', self.elem_type(v)))))]
        if self.with_longest:
            m.append((me, 'longest_string', T.Int))
        return m

    def invariant(self, v):
        me = v.l.self
        return searcher_init_inv(me, v.old_param(v), getattr(me, self.field), v.l._i0, v.g['pos'], self.with_longest)

    def ghost_step(self, head, end):
        end.g['pos'] = store(head.g['pos'], head.l._i0, getattr(end.l.self, self.field).len - 1)


class SearcherStringInit(Contract):
    name = SS + '.__init__'
    props = ('C02', 'C03', 'C04')
    field = '_strings'
    with_longest = True
    param = 'strings'

    def __init__(self):
        inv = SearcherInitInv()
        inv.field, inv.with_longest = self.field, self.with_longest
        param = self.param
        inv_invariant = inv.invariant

        def invariant(v):
            v.old_param = lambda vv: getattr(vv.old, param)
            return inv_invariant(v)
        inv.invariant = invariant
        inv.elem_type = self.elem_type
        self.loops = {0: inv}

    def elem_type(self, v):
        if v.old.self.has('_kind') if hasattr(v.old.self, 'has') else True:
            try:
                return TStr(v.old.self._kind)
            except AttributeError:
                pass
        # constructed by the code under verification: the string type is that of the list it is given
        h = v.ctx.heap[v.args_v[self.param].oid]
        if 'comps' in h.fields:
            return h.fields['comps'][2][1] if h.fields.get('pat') else h.fields['comps'][0][1]
        kinds = [x.kind for x in h.fields.get('items', []) if hasattr(x, 'kind')]
        return TStr(kinds[0] if kinds else 'b')      # a list of markers only: no string, either type will do

    def shape(self, b):
        kind = b.choice('mode', ['b', 's'])
        me = b.obj('self', self.name.rsplit('.', 1)[0], sealed=True, _kind=b.const(kind))
        b.ghost('pos', b.ctx.fresh(TArray(T.Int), 'pos0') if hasattr(b, 'ctx') else __import__('pyvc.spec', fromlist=['x']).ConcArray(0))
        et = TStr(kind) if self.with_longest else TRegex(kind)
        return {'self': me, self.param: b.symlist(self.param, [('p', TPat(et))], scalar=True)}

    def modifies(self, v, out):
        me = v.old.self
        et = self.elem_type(v)
        m = [(me, 'eof_index', T.Int), (me, 'timeout_index', T.Int),
             (me, self.field, TSymList((('idx', T.Int), ('s', et))))]
        if self.with_longest:
            m.append((me, 'longest_string', T.Int))
        return m

    def effects(self, v):
        v.pos = v.draw(TArray(T.Int), 'pos')

    def ensures(self, v):
        me = v.new.self
        P = getattr(v.old, self.param)
        lst = getattr(me, self.field)
        if getattr(v, 'concrete', False):
            pos = WitnessArray(lst.len, lambda j, k: lst.get(k)[0] == j)
        else:
            pos = getattr(v, 'pos', None)
            if pos is None:
                pos = v.g['pos']
        return searcher_init_inv(me, P, lst, P.len, pos, self.with_longest)


SR = 'pexpect.expect.searcher_re'


class SearcherReInit(SearcherStringInit):
    name = SR + '.__init__'
    field = '_searches'
    with_longest = False
    param = 'patterns'

    def elem_type(self, v):
        return T.Any


class SearcherReSearchInv(LoopSpec):
    vars = {'first_match': TOpt(T.Int), 'best_index': T.Int, 'the_match': T.Any, 'n': T.Int, 'match': TOpt(T.Any),
            'index': T.Int, 's': T.Any}
    ghost = {'bk': T.Int}

    def invariant(self, v):
        lst = v.old.self._searches
        i = v.l._i0
        fm = v.l.first_match
        ss = v.l.searchstart
        buf = v.old.buffer
        F = lambda k: re_find(lst.get(k)[1], buf, ss)
        if fm is None:
            return [('none-so-far', forall(0, i, lambda k: eq(F(k), -1)))]
        none = is_none(fm)
        fmv = some(fm)
        bk = v.g['bk']
        return [
            ('none-so-far', forall(0, i, lambda k: Implies(none, eq(F(k), -1)))),
            ('witness', Implies(Not(none), And(0 <= bk, bk < i, eq(lst.get(bk)[0], v.l.best_index),
                                               eq(v.l.the_match, re_match_of(lst.get(bk)[1], buf, ss)),
                                               eq(F(bk), fmv), fmv >= 0))),
            ('leftmost', forall(0, i, lambda k: Implies(And(Not(none), F(k) >= 0), fmv <= F(k)))),
            ('first-listed-on-tie', forall(0, i, lambda k: Implies(And(Not(none), eq(F(k), fmv)), bk <= k))),
        ]

    def ghost_step(self, head, end):
        fm = head.l.first_match
        m = end.l.match
        found = Not(is_none(m)) if isinstance(m, Opt) else (m is not None)
        if found is False:
            end.g['bk'] = head.g['bk']
            return
        n = end.l.n if end.l.has('n') else 0
        upd = And(found, Or(is_none(fm), n < some(fm)))
        end.g['bk'] = ite(upd, head.l._i0, head.g['bk'])


class SearcherReSearch(Contract):
    name = SR + '.search'
    props = ('C02',)
    loops = {0: SearcherReSearchInv()}

    def shape(self, b):
        kind = b.choice('mode', ['b', 's'])
        me = b.obj('self', SR, sealed=True, eof_index=b.int('eof_index'), timeout_index=b.int('timeout_index'),
                   _searches=b.symlist('_searches', [('idx', T.Int), ('s', TRegex(kind))]), _kind=b.const(kind),
                   start=b.any('start0'), end=b.any('end0'), match=b.any('match0'))
        b.ghost('bk', 0)
        return dict(self=me, buffer=b.str('buffer', kind), freshlen=b.int('freshlen'),
                    searchwindowsize=b.opt('W', lambda: b.int('W')))

    def requires(self, v):
        return ascending(v.a.self._searches)

    def outcomes(self, v):
        return [Ret(T.Int, 'hit'), Ret(T.Int, 'miss')]

    def modifies(self, v, out):
        if out.label == 'miss':
            return []
        se = v.old.self
        return [(se, 'start', T.Int), (se, 'end', T.Int), (se, 'match', T.Any)]

    def effects(self, v):
        v.bk = v.draw(T.Int, 'bk')
        v.g['ss.bk'] = v.bk          # which list entry matched (witness for the callers' listed-index clause)

    def ensures(self, v):
        me, new = v.old.self, v.new.self
        lst = me._searches
        buf = v.old.buffer
        W = v.old.searchwindowsize
        ss = 0 if W is None else smax(0, length(buf) - W)
        F = lambda k: re_find(lst.get(k)[1], buf, ss)
        n = lst.len
        miss_f = eq(v.result, -1)
        bk = witness(v, 'bk', n, lambda k: lst.get(k)[0] == v.result and F(k) == new.start)
        out = [('miss.none-found', forall(0, n, lambda k: Implies(miss_f, eq(F(k), -1)))),
               ('miss.frame', Implies(miss_f, And(same(new.start, me.start), same(new.end, me.end), same(new.match, me.match))))]
        if is_sym(miss_f) or not miss_f:
            st, en, m = new.start, new.end, new.match
            hitc = Not(miss_f)
            ok_types = (is_sym(st) and str(st.sort()) == 'Int') or (isinstance(st, int) and not isinstance(st, bool))
            if not ok_types:
                out.append(('hit.sets-span', Implies(hitc, False)))
                return out
            out += [
                ('hit.witness', Implies(hitc, And(0 <= bk, bk < n, eq(v.result, lst.get(bk)[0]), eq(st, F(bk)), st >= 0,
                                                   same_match(m, re_match_of(lst.get(bk)[1], buf, ss)),
                                                   eq(st, re_match_start(m)), eq(en, re_match_end(m))))),
                ('hit.leftmost', forall(0, n, lambda k: Implies(And(hitc, F(k) >= 0), st <= F(k)))),
                ('hit.first-listed-on-tie', forall(0, n, lambda k: Implies(And(hitc, eq(F(k), st)), bk <= k))),
                ('hit.refines-interface', Implies(hitc, And(v.result >= 0, 0 <= st, st <= en, en <= length(buf)))),
            ]
        return out


def register(reg):
    reg.add_iface('iface:searcher', 'search', SearcherSearch)
    reg.add_iface('iface:searcher', '__str__', SearcherStr)
    for c in (DoSearch, ExistingData, NewData, Eof, Timeout, Errored, ExpectLoop, SearcherStringSearch,
              SearcherStringInit, SearcherReInit, SearcherReSearch):
        reg.add(c)
    reg.inline_ok.update({'pexpect.spawnbase.SpawnBase._get_buffer'})




