"""Contracts for pexpect/expect.py: Expecter (C01, C03, C04, C05) and the two searchers (C02)."""
from pyvc.types import *
from pyvc.cbase import Contract, LoopSpec, Ret, Raises
from pyvc.spec import *
from .common import *


def W_ok(W):
    """Documented domain of the search window: None or an integer >= 1 (DESIGN.md C03)."""
    return True if W is None else W >= 1


def expecter_shape(b, with_lookback=True):
    sp, kind = spawn_shape(b)
    se = searcher_shape(b)
    W = b.opt('W', lambda: b.int('W'))
    L = b.opt('lookback', lambda: b.int('lookback')) if with_lookback else b.none()
    me = b.obj('self', 'pexpect.expect.Expecter', closed=True, spawn=sp, searcher=se,
               searchwindowsize=W, lookback=L)
    return me, sp, se, kind


class SearcherSearch(Contract):
    """Interface contract of searcher.search(buffer, freshlen, searchwindowsize).
    searcher_string.search and searcher_re.search are proved to refine it (C02)."""
    params = ['self', 'buffer', 'freshlen', 'searchwindowsize']
    defaults = {'searchwindowsize': None}

    def outcomes(self, v):
        return [Ret(T.Int, 'hit'), Ret(T.Int, 'miss')]

    def modifies(self, v, out):
        if out.label == 'miss':
            return []
        se = v.old.self
        return [(se, 'start', T.Int), (se, 'end', T.Int), (se, 'match', T.Any)]

    def ensures(self, v):
        if v.label == 'miss':
            return [('miss', eq(v.result, -1))]
        se = v.new.self
        return [('hit', And(v.result >= 0, 0 <= se.start, se.start <= se.end,
                            se.end <= length(v.old.buffer)))]


class SearcherStr(Contract):
    params = ['self']

    def outcomes(self, v):
        return [Ret(T.Text)]


def pend_of(sp):
    return sp._before.content


def sbuf_of(sp):
    return sp._buffer.content


class DoSearch(Contract):
    name = 'pexpect.expect.Expecter.do_search'
    props = ('C01', 'C02', 'C03')

    def shape(self, b):
        me, sp, se, kind = expecter_shape(b)
        return dict(self=me, window=b.str('window', kind), freshlen=b.int('freshlen'))

    def requires(self, v):
        sp = v.a.self.spawn
        me = v.a.self
        return [('inv', INV_buf(sp)),
                ('window-suffix', suffix_of(v.a.window, pend_of(sp))),
                ('W-domain', W_ok(me.searchwindowsize)),
                ('L-domain', True if me.lookback is None else me.lookback >= 0)]

    def outcomes(self, v):
        return [Ret(T.Int, 'hit'), Ret(T.NoneT, 'miss')]

    def modifies(self, v, out):
        me = v.old.self
        sp, se = me.spawn, me.searcher
        k = io_kind(sp._before)
        m = [(se, 'start', T.Int), (se, 'end', T.Int), (se, 'match', T.Any)] if out.label == 'hit' else []
        m += [(sp, '_buffer', TIo(k))]
        if out.label == 'hit':
            m += [(sp, '_before', TIo(k)), (sp, 'before', TStr(k)), (sp, 'after', TStr(k)),
                  (sp, 'match', T.Any), (sp, 'match_index', T.Int)]
        return m

    def ensures(self, v):
        old, new = v.old.self.spawn, v.new.self.spawn
        se = v.new.self.searcher
        pend = pend_of(old)
        win = v.old.window
        out = [('inv', INV_buf(new))]
        if v.result is None:
            out += [('miss.pending-unchanged', eq(pend_of(new), pend)),
                    ('miss.nothing-reported', And(same(new.before, old.before), same(new.after, old.after),
                                                  same(new.match, old.match), same(new.match_index, old.match_index)))]
        else:
            out += [
                # C01: conservation - what is handed back plus what stays pending is what was pending
                ('hit.conserve', eq(cat(new.before, new.after, pend_of(new)), pend)),
                ('hit.buffer-is-pending', eq(sbuf_of(new), pend_of(new))),
                # C02: after is the searcher's span of the window, match/index are the searcher's
                ('hit.after-is-span', eq(new.after, sub(win, se.start, se.end))),
                ('hit.rest-follows-span', eq(pend_of(new), sub(win, se.end, length(win)))),
                ('hit.match', And(same(new.match, se.match), eq(new.match_index, v.result), v.result >= 0)),
            ]
        return out


class ExistingData(Contract):
    name = 'pexpect.expect.Expecter.existing_data'
    props = ('C01', 'C03')

    def shape(self, b):
        me, sp, se, kind = expecter_shape(b)
        return dict(self=me)

    def requires(self, v):
        me = v.a.self
        return [('inv', INV_buf(me.spawn)), ('W-domain', W_ok(me.searchwindowsize)),
                ('L-domain', True if me.lookback is None else me.lookback >= 0)]

    outcomes = DoSearch.outcomes
    modifies = DoSearch.modifies

    def ensures(self, v):
        old, new = v.old.self.spawn, v.new.self.spawn
        pend = pend_of(old)
        out = [('inv', INV_buf(new))]
        if v.result is None:
            out += [('miss.pending-unchanged', eq(pend_of(new), pend)),
                    ('miss.nothing-reported', And(same(new.before, old.before), same(new.after, old.after),
                                                  same(new.match, old.match), same(new.match_index, old.match_index)))]
        else:
            out += [('hit.conserve', eq(cat(new.before, new.after, pend_of(new)), pend)),
                    ('hit.buffer-is-pending', eq(sbuf_of(new), pend_of(new))),
                    ('hit.match', And(same(new.match, v.new.self.searcher.match), eq(new.match_index, v.result),
                                      v.result >= 0))]
        return out


class NewData(Contract):
    name = 'pexpect.expect.Expecter.new_data'
    props = ('C01', 'C03')

    def shape(self, b):
        me, sp, se, kind = expecter_shape(b)
        return dict(self=me, data=b.str('data', kind))

    requires = ExistingData.requires
    outcomes = DoSearch.outcomes

    def modifies(self, v, out):
        m = DoSearch.modifies(self, v, out)
        sp = v.old.self.spawn
        k = io_kind(sp._before)
        if out.label != 'hit':
            m += [(sp._before, 'content', TStr(k)), (sp._before, 'pos', T.Int)]
        return m

    def ensures(self, v):
        old, new = v.old.self.spawn, v.new.self.spawn
        pend = cat(pend_of(old), v.old.data)          # this is where the received text R grows
        out = [('inv', INV_buf(new))]
        if v.result is None:
            out += [('miss.pending-grows-by-data', eq(pend_of(new), pend)),
                    ('miss.nothing-reported', And(same(new.before, old.before), same(new.after, old.after),
                                                  same(new.match, old.match), same(new.match_index, old.match_index)))]
        else:
            out += [('hit.conserve', eq(cat(new.before, new.after, pend_of(new)), pend)),
                    ('hit.buffer-is-pending', eq(sbuf_of(new), pend_of(new))),
                    ('hit.match', And(same(new.match, v.new.self.searcher.match), eq(new.match_index, v.result),
                                      v.result >= 0))]
        return out


class Eof(Contract):
    name = 'pexpect.expect.Expecter.eof'
    props = ('C01', 'C04')

    def shape(self, b):
        me, sp, se, kind = expecter_shape(b)
        err = b.opt('err', lambda: b.obj('err', 'EOF', closed=False))
        return dict(self=me, err=err)

    def requires(self, v):
        return [('inv', INV_buf(v.a.self.spawn))]

    def outcomes(self, v):
        return [Ret(T.Int, 'listed'), Raises('EOF', 'unlisted')]

    def exits(self, v):
        return ('EOF',)

    def modifies(self, v, out):
        sp = v.old.self.spawn
        k = io_kind(sp._before)
        m = [(sp, '_buffer', TIo(k)), (sp, '_before', TIo(k)), (sp, 'before', TStr(k)), (sp, 'after', T('Cls', 'EOF'))]
        if out.label == 'listed':
            m += [(sp, 'match', T('Cls', 'EOF')), (sp, 'match_index', T.Int)]
        else:
            m += [(sp, 'match', T.NoneT), (sp, 'match_index', T.NoneT)]
        return m

    def ensures(self, v):
        old, new = v.old.self.spawn, v.new.self.spawn
        idx = v.old.self.searcher.eof_index
        EOF = ClassConst('EOF')
        out = [('inv', INV_buf(new)),
               ('before-is-all-pending', eq(new.before, pend_of(old))),
               ('pending-cleared', And(eq(pend_of(new), ''), eq(sbuf_of(new), ''))),
               ('after-is-EOF', eq(new.after, EOF))]
        if v.raised is None:
            out += [('listed.index', And(idx >= 0, eq(v.result, idx), eq(new.match, EOF), eq(new.match_index, idx)))]
        else:
            out += [('unlisted.raises-EOF', And(v.raised == 'EOF', Not(idx >= 0))),
                    ('unlisted.match-none', And(is_none(new.match), is_none(new.match_index)))]
        return out


class Timeout(Contract):
    name = 'pexpect.expect.Expecter.timeout'
    props = ('C01', 'C04')

    def shape(self, b):
        me, sp, se, kind = expecter_shape(b)
        err = b.opt('err', lambda: b.obj('err', 'TIMEOUT', closed=False))
        return dict(self=me, err=err)

    def requires(self, v):
        return [('inv', INV_buf(v.a.self.spawn))]

    def outcomes(self, v):
        return [Ret(T.Int, 'listed'), Raises('TIMEOUT', 'unlisted')]

    def exits(self, v):
        return ('TIMEOUT',)

    def modifies(self, v, out):
        sp = v.old.self.spawn
        k = io_kind(sp._before)
        m = [(sp, 'before', TStr(k)), (sp, 'after', T('Cls', 'TIMEOUT'))]
        if out.label == 'listed':
            m += [(sp, 'match', T('Cls', 'TIMEOUT')), (sp, 'match_index', T.Int)]
        else:
            m += [(sp, 'match', T.NoneT), (sp, 'match_index', T.NoneT)]
        return m

    def ensures(self, v):
        old, new = v.old.self.spawn, v.new.self.spawn
        idx = v.old.self.searcher.timeout_index
        TO = ClassConst('TIMEOUT')
        out = [('inv', INV_buf(new)),
               ('before-is-all-pending', eq(new.before, pend_of(old))),
               # C01: a TIMEOUT consumes nothing
               ('consumes-nothing', And(eq(pend_of(new), pend_of(old)), eq(sbuf_of(new), sbuf_of(old)))),
               ('after-is-TIMEOUT', eq(new.after, TO))]
        if v.raised is None:
            out += [('listed.index', And(idx >= 0, eq(v.result, idx), eq(new.match, TO), eq(new.match_index, idx)))]
        else:
            out += [('unlisted.raises-TIMEOUT', And(v.raised == 'TIMEOUT', Not(idx >= 0))),
                    ('unlisted.match-none', And(is_none(new.match), is_none(new.match_index)))]
        return out


class Errored(Contract):
    name = 'pexpect.expect.Expecter.errored'
    props = ('C01', 'C04')

    def shape(self, b):
        me, sp, se, kind = expecter_shape(b)
        return dict(self=me)

    def requires(self, v):
        return [('inv', INV_buf(v.a.self.spawn))]

    def modifies(self, v, out):
        sp = v.old.self.spawn
        k = io_kind(sp._before)
        return [(sp, 'before', TStr(k)), (sp, 'after', T.NoneT), (sp, 'match', T.NoneT), (sp, 'match_index', T.NoneT)]

    def ensures(self, v):
        old, new = v.old.self.spawn, v.new.self.spawn
        return [('inv', INV_buf(new)),
                ('before-is-all-pending', eq(new.before, pend_of(old))),
                ('consumes-nothing', And(eq(pend_of(new), pend_of(old)), eq(sbuf_of(new), sbuf_of(old)))),
                ('cleared', And(is_none(new.after), is_none(new.match), is_none(new.match_index)))]


def register(reg):
    reg.add_iface('iface:searcher', 'search', SearcherSearch)
    reg.add_iface('iface:searcher', '__str__', SearcherStr)
    for c in (DoSearch, ExistingData, NewData, Eof, Timeout, Errored):
        reg.add(c)
    reg.inline_ok.update({'pexpect.spawnbase.SpawnBase._get_buffer'})
