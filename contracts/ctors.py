"""Constructors (C07: the decoder is built for the requested encoding AND error policy; C13: a piped child is started
with exactly the requested working directory and environment).

SpawnBase.__init__ is verified on its own (context 'ctor-base'); the constructors of the transports are verified with
it as an oracle that records what it was given (context 'ctor')."""
from pyvc.types import *
from pyvc.cbase import Contract, LoopSpec, Ret, Raises
from pyvc.spec import *
from .common import *

SB = 'pexpect.spawnbase.SpawnBase'
FD = 'pexpect.fdpexpect.fdspawn'
SOCK = 'pexpect.socket_pexpect.SocketSpawn'
POPEN = 'pexpect.popen_spawn.PopenSpawn'


def _uf(name, *sorts):
    import z3
    from pyvc.spec import Val
    m = {'S': z3.StringSort(), 'V': Val, 'I': z3.IntSort(), 'B': z3.BoolSort()}
    return z3.Function(name, *[m[s] for s in sorts])


def coder(kind, encoding, errors):
    """codecs.getincremental<kind>(encoding)(errors): a function of exactly these two things"""
    return _uf('Incremental' + kind, 'S', 'S', 'V')(encoding, errors)


# ---- SpawnBase.__init__ itself --------------------------------------------------------------------------------------
class CodecFactory(Contract):
    """codecs.getincrementaldecoder(enc) / getincrementalencoder(enc): the codec's factory"""
    only_in = 'ctor-base'
    params = ['encoding']
    kind = 'decoder'

    def outcomes(self, v):
        def mk(interp, pre):
            from pyvc.values import VAny
            return VAny(_uf('Factory' + self.kind, 'S', 'V')(pre.a.encoding), notnone=True)
        return [Ret(T.Any, make=mk), Raises('LookupError')]


class CodecFactoryEnc(CodecFactory):
    kind = 'encoder'


class FactoryCall(Contract):
    """factory(errors): the incremental coder for (encoding, errors)"""
    only_in = 'ctor-base'
    params = ['factory', 'errors']
    defaults = {'errors': 'strict'}

    def outcomes(self, v):
        def mk(interp, pre):
            from pyvc.values import VAny
            return VAny(_uf('Build', 'V', 'S', 'V')(pre.a.factory, pre.a.errors), notnone=True)
        return [Ret(T.Any, make=mk)]


class SpawnBaseInit(Contract):
    name = SB + '.__init__'
    props = ('C07',)
    standin = False
    only_in = 'ctor-base'
    context = 'ctor-base'

    def shape(self, b):
        kind = b.choice('mode', ['b', 's'])
        return dict(self=b.obj('self', SB, sealed=False), timeout=b.real('timeout'), maxread=b.int('maxread'),
                    searchwindowsize=b.int('searchwindowsize'), logfile=b.any('logfile'),
                    encoding=b.none() if kind == 'b' else b.str('encoding', 's'), codec_errors=b.str('codec_errors', 's'))

    def exits(self, v):
        return ('LookupError',)

    def ensures(self, v):
        if v.raised is not None:
            return [('C07:only-an-unknown-encoding-can-fail', v.old.encoding is not None)]
        me = v.new.self
        enc, err = v.old.encoding, v.old.codec_errors
        out = [('C07:remembers-encoding-and-error-policy', And(same(me.encoding, enc), eq(me.codec_errors, err))),
               ('buffers-start-empty-and-separate', And(eq(me._buffer.content, ''), eq(me._before.content, ''), me._buffer._oid != me._before._oid)),
               ('stores-its-parameters', And(same(me.timeout, v.old.timeout), eq(me.maxread, v.old.maxread),
                                             same(me.searchwindowsize, v.old.searchwindowsize), same(me.logfile, v.old.logfile)))]
        if enc is None:
            out += [('C07:bytes-mode-passes-bytes-through', And(me._decoder._cls == 'pexpect.spawnbase._NullCoder', me._encoder._cls == 'pexpect.spawnbase._NullCoder',
                                                                  me.string_type is ClassConst('bytes'), me.buffer_type is ClassConst('BytesIO')))]
        else:
            fd = _uf('Factorydecoder', 'S', 'V')(enc)
            fe = _uf('Factoryencoder', 'S', 'V')(enc)
            out += [('C07:decoder-built-for-the-requested-encoding-and-error-policy', me._decoder == _uf('Build', 'V', 'S', 'V')(fd, err)),
                    ('C07:encoder-built-for-the-requested-encoding-and-error-policy', me._encoder == _uf('Build', 'V', 'S', 'V')(fe, err)),
                    ('unicode-mode-types', And(me.string_type is ClassConst('str'), me.buffer_type is ClassConst('StringIO')))]
        return out


# ---- the transports' constructors, with SpawnBase.__init__ as an oracle ----------------------------------------------------
class BaseInitOracle(Contract):
    name = SB + '.__init__'
    only_in = 'ctor'
    params = ['self', 'timeout', 'maxread', 'searchwindowsize', 'logfile', 'encoding', 'codec_errors']
    defaults = dict(timeout=30, maxread=2000, searchwindowsize=None, logfile=None, encoding=None, codec_errors='strict')

    def effects(self, v):
        g = v.g
        g['base_inits'] = g.get('base_inits', 0) + 1
        for k in ('timeout', 'maxread', 'searchwindowsize', 'logfile', 'encoding', 'codec_errors'):
            g['base.' + k] = getattr(v.old, k)
        from pyvc.values import VClass
        h = v.ctx.heap[v.args_v['self'].oid]
        h.closed = False
        from pyvc.values import VBool
        h.fields['terminated'] = VBool(True)        # no child yet (SpawnBase.__init__)
        h.fields['string_type'] = VClass('bytes' if v.old.encoding is None else 'str')
        h.fields['encoding'] = v.args_v['encoding']


def same_ref(a, b):
    """the same value, or - for objects - the very same object"""
    if hasattr(a, '_oid') and hasattr(b, '_oid'):
        return a._oid == b._oid
    if hasattr(a, '_oid') or hasattr(b, '_oid'):
        return False
    return same(a, b)


def passes_through(v, names):
    g = v.g
    out = [('C07:base-initialiser-called-once', g.get('base_inits', 0) == 1)]
    for k in names:
        tag = 'C07:' if k in ('encoding', 'codec_errors') else ''
        out.append((tag + 'passes-%s-on' % k.replace('_', '-'), same_ref(g.get('base.' + k), getattr(v.old, k))))
    return out


BASE_ARGS = ('timeout', 'maxread', 'searchwindowsize', 'logfile', 'encoding', 'codec_errors')


def common_args(b, kind):
    return dict(timeout=b.real('timeout'), maxread=b.int('maxread'),
                searchwindowsize=b.int('searchwindowsize'), logfile=b.any('logfile'),
                encoding=b.none() if kind == 'b' else b.str('encoding', 's'), codec_errors=b.str('codec_errors', 's'))


class FstatOracle(Contract):
    only_in = 'ctor'
    params = ['fd']

    def outcomes(self, v):
        return [Ret(T.Any), Raises('OSError')]


class FdInit(Contract):
    name = FD + '.__init__'
    props = ('C07',)
    standin = False
    only_in = 'ctor'
    context = 'ctor'

    def shape(self, b):
        kind = b.choice('mode', ['b', 's'])
        d = dict(self=b.obj('self', FD, sealed=False), fd=b.int('fd'), args=b.none(), use_poll=b.bool('use_poll'))
        d.update(common_args(b, kind))
        return d

    def exits(self, v):
        return ('ExceptionPexpect',)

    def ensures(self, v):
        if v.raised is not None:
            return [('no-object-without-a-valid-descriptor', v.g.get('base_inits', 0) == 0)]
        return passes_through(v, BASE_ARGS) + [('keeps-the-descriptor', eq(v.new.self.child_fd, v.old.fd))]


class SockFileno(Contract):
    params = ['self']

    def outcomes(self, v):
        return [Ret(T.Int)]


class SockInit(Contract):
    name = SOCK + '.__init__'
    props = ('C07',)
    standin = False
    only_in = 'ctor'
    context = 'ctor'

    def shape(self, b):
        kind = b.choice('mode', ['b', 's'])
        d = dict(self=b.obj('self', SOCK, sealed=False), socket=b.obj('socket', 'iface:ctorsocket', sealed=True), args=b.none(),
                 use_poll=b.bool('use_poll'))
        d.update(common_args(b, kind))
        return d

    def exits(self, v):
        return ()

    def ensures(self, v):
        return passes_through(v, BASE_ARGS)


class PopenOracle(Contract):
    """subprocess.Popen(cmd, **kwargs): records how the child was started"""
    only_in = 'ctor'
    params = ['cmd', 'bufsize', 'stdin', 'stdout', 'stderr', 'cwd', 'preexec_fn', 'env']
    defaults = dict(bufsize=-1, stdin=None, stdout=None, stderr=None, cwd=None, preexec_fn=None, env=None)

    def outcomes(self, v):
        def mk(interp, pre):
            from pyvc.values import HObj, VInt
            import z3
            return interp.ctx.alloc(HObj('iface:popen', 'obj', {'pid': VInt(interp.ctx._const('pid', z3.IntSort()))}, closed=False))
        return [Ret(T.Any, make=mk), Raises('OSError')]

    def effects(self, v):
        g = v.g
        g['popens'] = g.get('popens', 0) + 1
        for k in ('cwd', 'env', 'preexec_fn', 'cmd'):
            g['popen.' + k] = getattr(v.old, k)


class ShlexSplit(Contract):
    """shlex.split(s, posix=...): some list of words; remembers what was split and how"""
    only_in = 'ctor'
    params = ['s', 'comments', 'posix']
    defaults = dict(comments=False, posix=True)

    def outcomes(self, v):
        return [Ret(TSymList((('w', T.Text),), True)), Raises('ValueError')]

    def effects(self, v):
        g = v.g
        g['shlex.calls'] = g.get('shlex.calls', 0) + 1
        g['shlex.of'] = v.old.s
        g['shlex.posix'] = v.old.posix
        g['shlex.words'] = v.result if v.raised is None else None


class PopenInit(Contract):
    name = POPEN + '.__init__'
    props = ('C07', 'C13', 'C10')
    standin = False
    only_in = 'ctor'
    context = 'ctor'

    def shape(self, b):
        kind = b.choice('mode', ['b', 's'])
        env = b.choice('env', ['none', 'empty', 'some'])
        form = b.choice('cmd', ['list', 'string'])
        d = dict(self=b.obj('self', POPEN, sealed=False), cmd=b.list([b.str('arg0', 's')]) if form == 'list' else b.str('cmdline', 's'),
                 cwd=b.opt('cwd', lambda: b.str('cwd', 's')),
                 env=b.none() if env == 'none' else (b.dict([], []) if env == 'empty' else b.dict([b.const('K')], [b.str('V', 's')])),
                 preexec_fn=b.any('preexec_fn'))
        d.update(common_args(b, kind))
        return d

    def exits(self, v):
        return ('OSError', 'ValueError')

    def ensures(self, v):
        g = v.g
        out = passes_through(v, BASE_ARGS)
        if v.raised is None:
            if hasattr(v.old.cmd, '_oid'):
                out += [('C13:an-argument-list-is-taken-verbatim', And(same_ref(g.get('popen.cmd'), v.old.cmd), g.get('shlex.calls', 0) == 0))]
            else:
                out += [('C13:a-command-line-is-split-once-by-posix-shell-rules',
                         And(g.get('shlex.calls', 0) == 1, eq(g.get('shlex.of'), v.old.cmd), eq(g.get('shlex.posix'), True))),
                        ('C13:the-child-gets-exactly-the-words-of-the-split', same_ref(g.get('popen.cmd'), g.get('shlex.words')))]
            out += [('C10:a-started-child-is-not-reported-as-terminated', eq(v.new.self.terminated, False)),
                    ('C13:one-child-started', g.get('popens', 0) == 1),
                    ('C13:child-gets-the-requested-working-directory', same_ref(g.get('popen.cwd'), v.old.cwd)),
                    ('C13:child-gets-exactly-the-requested-environment', same_ref(g.get('popen.env'), v.old.env)),
                    ('C13:child-gets-the-requested-preexec-hook', same_ref(g.get('popen.preexec_fn'), v.old.preexec_fn))]
        return out


PTY = 'pexpect.pty_spawn.spawn'


class SpawnOracle(Contract):
    """spawn._spawn as seen by the constructor: records what it was given and which settings the object carried at
    that moment (the body is verified on its own, contracts/utils.py SpawnLaunch, which reads self.cwd / env / echo /
    ignore_sighup / encoding)"""
    name = PTY + '._spawn'
    only_in = 'ctor'
    params = ['self', 'command', 'args', 'preexec_fn', 'dimensions']
    defaults = dict(args=[], preexec_fn=None, dimensions=None)

    def outcomes(self, v):
        return [Ret(T.NoneT), Raises('ExceptionPexpect'), Raises('TypeError')]

    def effects(self, v):
        g = v.g
        g['spawns'] = g.get('spawns', 0) + 1
        for k in ('command', 'args', 'preexec_fn', 'dimensions'):
            g['spawn.' + k] = getattr(v.old, k)
        me = v.old.self
        for k in ('cwd', 'env', 'echo', 'ignore_sighup', 'encoding'):
            g['spawn.self.' + k] = getattr(me, k) if me.has(k) else 'unset'


class PtyInit(Contract):
    """pexpect.spawn(...): the base initialiser gets the stream options, and _spawn is entered once, with the command,
    argument list, preexec hook and dimensions given, on an object that already carries the requested cwd, env, echo
    and ignore_sighup (they are read by _spawn, so setting them afterwards would start the child without them)."""
    name = PTY + '.__init__'
    props = ('C07', 'C13', 'C06')
    standin = False
    only_in = 'ctor'
    context = 'ctor'

    def shape(self, b):
        kind = b.choice('mode', ['b', 's'])
        cmd = b.choice('command', ['none', 'some'])
        env = b.choice('env', ['none', 'empty', 'some'])        # an empty environment is not "no environment given"
        d = dict(self=b.obj('self', PTY, sealed=False),
                 command=b.none() if cmd == 'none' else b.str('command', 's'),
                 args=b.list([b.str('arg%d' % i, 's') for i in range(b.choice('nargs', [0, 1]))]),
                 cwd=b.opt('cwd', lambda: b.str('cwd', 's')),
                 env=b.none() if env == 'none' else (b.dict([], []) if env == 'empty' else b.dict([b.const('K')], [b.str('V', 's')])),
                 ignore_sighup=b.bool('ignore_sighup'), echo=b.bool('echo'), preexec_fn=b.any('preexec_fn'),
                 dimensions=b.opt('dimensions', lambda: b.tuple(b.int('rows'), b.int('cols'))), use_poll=b.bool('use_poll'))
        d.update(common_args(b, kind))
        return d

    def exits(self, v):
        return ('ExceptionPexpect', 'TypeError')

    def ensures(self, v):
        g = v.g
        out = passes_through(v, BASE_ARGS)
        if v.old.command is None:
            return out + [('C13:nothing-started-without-a-command', g.get('spawns', 0) == 0)]
        out += [('C13:the-child-is-started-once', g.get('spawns', 0) == 1)]
        if g.get('spawns', 0) == 1:
            out += [('C13:%s-handed-to-_spawn' % k, same_ref(g.get('spawn.' + k), getattr(v.old, k)))
                    for k in ('command', 'args', 'preexec_fn')]
            d, gd = v.old.dimensions, g.get('spawn.dimensions')
            out += [('C13:dimensions-handed-to-_spawn', (gd is None) if d is None else
                     (isinstance(gd, tuple) and len(gd) == 2 and And(eq(gd[0], d[0]), eq(gd[1], d[1]))))]
            out += [('C13:%s-set-before-the-child-is-started' % k, same_ref(g.get('spawn.self.' + k), getattr(v.old, k)))
                    for k in ('cwd', 'env', 'echo', 'ignore_sighup')]
            out += [('C07:encoding-set-before-the-command-line-is-encoded', same_ref(g.get('spawn.self.encoding'), v.old.encoding))]
        if v.raised is None:
            out += [('C06:poll-or-select-as-requested', eq(v.new.self.use_poll, v.old.use_poll))]
        return out


def register(reg):
    reg.add_extern('codecs.getincrementaldecoder', CodecFactory)
    reg.add_extern('codecs.getincrementalencoder', CodecFactoryEnc)
    reg.add_extern('opaque.__call__', FactoryCall)
    reg.add(SpawnBaseInit)
    reg.add(BaseInitOracle)
    reg.add_extern('os.fstat', FstatOracle)
    reg.add(FdInit)
    reg.add_iface('iface:ctorsocket', 'fileno', SockFileno)
    reg.add(SockInit)
    reg.add_extern('subprocess.Popen', PopenOracle)
    reg.add_extern('shlex.split', ShlexSplit)
    reg.add(PopenInit)
    reg.add(SpawnOracle)
    reg.add(PtyInit)
