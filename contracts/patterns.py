"""Contracts for the pattern front door (C20): _coerce_expect_string, _coerce_expect_re, compile_pattern_list,
expect.

A compiled regular expression is the value ReCompile(text, is-bytes, flags): `re.compile` is a function of exactly
those three things (CPython's own equality on compiled patterns), so two forms of a pattern "select the same
occurrences" when they compile to the same value.  image(p) below is the native pattern that C20 says every accepted
form must be equivalent to; it is written from the property statement, not from the code."""
from pyvc.types import *
from pyvc.cbase import Contract, LoopSpec, Ret, Raises
from pyvc.spec import *
from .common import *
from .spawnbase import api_spawn, timeout_param, window_param, effective_timeout, param_domains, spawn_inv
from .expect import expect_outcome_post, expect_outcomes, expect_modifies, expect_effects, pend_of, sbuf_of

SB = 'pexpect.spawnbase.SpawnBase'
DOTALL, IGNORECASE, UNICODE, LOCALE = 16, 2, 32, 4


def other_kind(k):
    return 's' if k == 'b' else 'b'


def pattern_alts(kind):
    return (('native', TStr(kind)), ('other', TStr(other_kind(kind))), ('eof', TCls('EOF')), ('timeout', TCls('TIMEOUT')),
            ('re', TRegex('?')), ('bad', T('Any', 'nonpattern')))


def pattern_extra(b, kind):
    return dict(encoding=b.none() if kind == 'b' else b.str('encoding', 's'),
                ignorecase=b.bool('ignorecase'),
                allowed_string_types=b.tuple(b.cls('bytes'), b.cls('str')) if kind == 'b' else b.tuple(b.cls('str')))


def transcode(text, to_bytes):
    """the pattern text of a compiled regex carried to the other string type (UTF-8, the same functions the
    engine uses for str.encode('utf-8') / bytes.decode('utf-8'))"""
    return utf8_transcode(text, to_bytes)


def adj_flags(flags, to_bytes):
    """flags of a regex re-compiled in the other string type: its own flags, minus the one flag CPython forbids on
    the target type (re.UNICODE, implicit on every str pattern, is illegal on bytes; re.LOCALE is illegal on str)"""
    return bit_and(flags, ~UNICODE if to_bytes else ~LOCALE)


def as_union(x, kind):
    """view of a pattern-list element as one of the alternatives (a concrete object is what its type says)"""
    if isinstance(x, (Union, ConcUnion, PatUnion)):
        return x
    if isinstance(x, Pat):
        return PatUnion(x)
    if is_sym(x):
        # a string term written in the code under verification (e.g. self.crlf): of the object's own string type
        return ConcUnion('native' if str(x.sort()) == 'String' else 're', x)
    import re
    native, other = (bytes, str) if kind == 'b' else (str, bytes)
    if isinstance(x, ClassConst):
        return ConcUnion('eof' if x is ClassConst('EOF') else ('timeout' if x is ClassConst('TIMEOUT') else 'bad'), x)
    if isinstance(x, native):
        return ConcUnion('native', x)
    if isinstance(x, other):
        return ConcUnion('other', x)
    if isinstance(x, re.Pattern):
        return ConcUnion('re', x)
    return ConcUnion('bad', x)


class PatUnion:
    """a pattern-list element known only as marker / text (element of a list literal read at a symbolic index)"""
    def __init__(self, p):
        self.p = p

    def is_(self, label):
        if label == 'eof':
            return pat_is_eof(self.p)
        if label == 'timeout':
            return pat_is_timeout(self.p)
        if label == 'native':
            return pat_is_text(self.p)
        return False

    def val(self, label):
        return pat_val(self.p)


def is_listlike(x):
    return hasattr(x, 'len') and hasattr(x, 'get')


def iff(a, b):
    return And(Implies(a, b), Implies(b, a))


def acceptable(u, kind):
    """C20: which objects are patterns"""
    u = as_union(u, kind)
    ok = Or(u.is_('native'), u.is_('eof'), u.is_('timeout'), u.is_('re'))
    return Or(ok, u.is_('other')) if kind == 'b' else ok


def string_flags(ignorecase):
    return ite(ignorecase, DOTALL | IGNORECASE, DOTALL)


def image_re(u, kind, ignorecase):
    """the native compiled pattern an accepted element stands for (meaningful where acceptable and not EOF/TIMEOUT)"""
    isb = (kind == 'b')
    if isinstance(u, ConcUnion):
        if u.label in ('native', 'other'):
            return re_compile(u.value, isb, string_flags(ignorecase))
        if u.label != 're':
            return None
        r = u.value
        if re_is_bytes(r) == isb:
            return r
        return re_compile(transcode(re_pat_text(r), isb), isb, adj_flags(re_flags(r), isb))
    r = u.val('re')
    same_type = (re_is_bytes(r) == isb)
    recompiled = ite(same_type, r, re_compile(transcode(re_pat_text(r), isb), isb, adj_flags(re_flags(r), isb)))
    return ite(u.is_('native'), re_compile(u.val('native'), isb, string_flags(ignorecase)),
               ite(u.is_('other'), re_compile(u.val('other'), isb, string_flags(ignorecase)), recompiled))


def image_ok(p, u, kind, ignorecase):
    """compiled element p is the image of source element u"""
    u = as_union(u, kind)
    pv = pat_val(p)
    val_ok = False if isinstance(pv, ClassConst) else (pv == image_re(u, kind, ignorecase))
    return And(iff(pat_is_eof(p), u.is_('eof')), iff(pat_is_timeout(p), u.is_('timeout')),
               Implies(Not(Or(u.is_('eof'), u.is_('timeout'))), val_ok))


def kind_of(x_v, x):
    """string type of a value: the engine's static kind, or the type of the real object"""
    if hasattr(x_v, 'kind'):
        return x_v.kind
    return 'b' if isinstance(x, bytes) else 's'


class CoerceExpectString(Contract):
    name = SB + '._coerce_expect_string'
    props = ('C20',)

    def shape(self, b):
        kind = b.choice('mode', ['b', 's'])
        sk = b.choice('s', ['b', 's'])
        sp = b.obj('self', SB, sealed=False, **pattern_extra(b, kind))
        return dict(self=sp, s=b.str('s', sk))

    def requires(self, v):
        return []

    def outcomes(self, v):
        k = 'b' if v.a.self.encoding is None else 's'
        sk = v.args_v['s'].kind
        return [Ret(TStr('b' if k == 'b' else sk)), Raises('UnicodeEncodeError')]

    def exits(self, v):
        return ('UnicodeEncodeError',)      # non-ASCII text given to a bytes-mode object (outside C20; nothing consumed)

    def ensures(self, v):
        sk = kind_of(getattr(v, 'args_v', {}).get('s'), v.old.s)
        if v.raised is not None:
            return [('C20:only-text-to-bytes-mode-can-fail', And(v.old.self.encoding is None, sk == 's')),
                    ('C20:only-non-ascii-text-can-fail', Not(ascii_only(v.old.s)))]
        k = 'b' if v.old.self.encoding is None else 's'
        rk = kind_of(getattr(v, 'result_v', None), v.result)
        out = [('C20:same-text', eq(v.result, v.old.s))]
        if k == 'b':
            out.append(('C20:bytes-mode-gets-bytes', rk == 'b'))
        else:
            out.append(('C20:unicode-mode-unchanged', rk == sk))
        return out


class CoerceExpectRe(Contract):
    name = SB + '._coerce_expect_re'
    props = ('C20',)

    def shape(self, b):
        kind = b.choice('mode', ['b', 's'])
        sp = b.obj('self', SB, sealed=False, **pattern_extra(b, kind))
        return dict(self=sp, r=b.regex('r'))

    def requires(self, v):
        return []

    def outcomes(self, v):
        k = 'b' if v.a.self.encoding is None else 's'
        return [Ret(TRegex(k))]

    def exits(self, v):
        return ('UnicodeDecodeError',)      # a bytes pattern that is not UTF-8 given to a unicode-mode object

    def ensures(self, v):
        isb = v.old.self.encoding is None
        r = v.old.r
        if v.raised is not None:
            return [('C20:only-bytes-pattern-to-unicode-mode-can-fail', And(not isb, re_is_bytes(r)))]
        same_type = (re_is_bytes(r) == isb)
        # CPython adds re.UNICODE to the flags of every str pattern by itself: compare flags modulo that bit on str
        norm = (lambda f: f) if isb else (lambda f: bit_and(f, ~UNICODE))
        res = v.result
        return [('C20:native-type-passes-through', Implies(same_type, res == r)),
                ('C20:other-type-same-text-in-native-type', Implies(Not(same_type), And(re_pat_text(res) == transcode(re_pat_text(r), isb), re_is_bytes(res) == isb))),
                ('C20:other-type-own-flags-honoured', Implies(Not(same_type), norm(re_flags(res)) == norm(adj_flags(re_flags(r), isb)))),
                ('C20:other-type-is-recompile', Implies(Not(same_type), res == re_compile(transcode(re_pat_text(r), isb), isb, adj_flags(re_flags(r), isb))))]


class CompileLoop(LoopSpec):
    unroll_concrete = True      # compile_pattern_list(p) wraps a single object into [p]: iterated exactly

    def vars(self, v):
        kind = 'b' if v.old.self.encoding is None else 's'
        return {'compiled_pattern_list': TSymList((('p', TPat(TRegex(kind))),), True)}

    def invariant(self, v):
        kind = 'b' if v.old.self.encoding is None else 's'
        pats, out, i = v.old.patterns, v.l.compiled_pattern_list, v.l._i0
        ic = v.old.self.ignorecase
        return [('out-len', out.len == i),
                ('flags', eq(v.l.compile_flags, string_flags(ic))),
                ('C20:prefix-accepted', forall(0, i, lambda k: acceptable(pats.get(k), kind))),
                ('C20:prefix-is-image', forall(0, i, lambda k: image_ok(out.get(k), pats.get(k), kind, ic)))]

    def variant(self, v):
        return v.old.patterns.len - v.l._i0


class CompilePatternList(Contract):
    """compile_pattern_list(patterns): None gives []; a single object is the one-element list; a list is compiled
    element-wise to its image; TypeError exactly when some element is not a pattern (nothing else happens)."""
    name = SB + '.compile_pattern_list'
    props = ('C20',)
    loops = {0: CompileLoop()}
    union_params = ('patterns',)

    def shape(self, b):
        kind = b.choice('mode', ['b', 's'])
        sp = b.obj('self', SB, sealed=False, **pattern_extra(b, kind))
        return dict(self=sp, patterns=patterns_param(b, kind))

    def requires(self, v):
        return []

    def outcomes(self, v):
        k = 'b' if v.a.self.encoding is None else 's'
        return [Ret(TSymList((('p', TPat(TRegex(k))),), True)), Raises('TypeError'), Raises('UnicodeEncodeError'), Raises('UnicodeDecodeError')]

    def exits(self, v):
        return ('TypeError', 'UnicodeEncodeError', 'UnicodeDecodeError')

    def ensures(self, v):
        kind = 'b' if v.old.self.encoding is None else 's'
        bad = getattr(v, 'bad', None)
        pats = v.old.patterns
        if getattr(v, 'concrete', False):
            if v.raised in ('UnicodeEncodeError', 'UnicodeDecodeError'):
                return []
            bad = witness(v, 'bad', pats.len, lambda k: not acceptable(pats.get(k), kind)) if is_listlike(pats) else None
        elif bad is None and v.raised is not None and is_listlike(pats):
            bad = v.l.idx        # inside the function: the element being looked at when it raised
        if v.raised in ('UnicodeEncodeError', 'UnicodeDecodeError'):
            return unicode_error_post(v.raised, pats, kind, bad)
        return compiled_post(v, v.old.patterns, kind, v.old.self.ignorecase, v.result, bad)

    def effects(self, v):
        v.bad = v.draw(T.Int, 'bad')    # call site: which element was rejected (only meaningful on an exception)
        v.g['cpl.bad'] = v.bad


def patterns_param(b, kind, name='patterns'):
    form = b.choice(name, ['list', 'none', 'single'])
    if form == 'none':
        return b.none()
    if form == 'single':
        return b.union(name, pattern_alts(kind))
    return b.symlist(name, [('p', TUnion(pattern_alts(kind)))], scalar=True)


def unicode_error_post(raised, pats, kind, i):
    """a codec error can only come from a pattern given in the other string type: text that is not ASCII given to a
    bytes-mode object, or a bytes regex that is not UTF-8 given to a unicode-mode object"""
    culprit = (lambda u: And(kind == 'b', Or(u.is_('other'), u.is_('re')))) if raised == 'UnicodeEncodeError' else \
              (lambda u: And(kind == 's', u.is_('re')))
    if pats is None:
        return [('C20:codec-error-only-from-a-pattern-of-the-other-type', False)]
    if not is_listlike(pats):
        return [('C20:codec-error-only-from-a-pattern-of-the-other-type', culprit(as_union(pats, kind)))]
    return [('C20:codec-error-only-from-a-pattern-of-the-other-type',
             And(0 <= i, i < pats.len, culprit(as_union(pats.get(i), kind))))]


def compiled_post(v, pats, kind, ic, result, bad_index):
    if pats is None:
        return [('C20:none-is-empty-list', False if v.raised is not None else result.len == 0)]
    if not is_listlike(pats):
        if v.raised is not None:
            return [('C20:single.typeerror-only-for-a-non-pattern', Not(acceptable(pats, kind)))]
        return [('C20:single.one-element', result.len == 1),
                ('C20:single.accepted', acceptable(pats, kind)),
                ('C20:single.image', image_ok(result.get(0), pats, kind, ic))]
    if v.raised is not None:
        i = bad_index
        return [('C20:typeerror-only-for-a-non-pattern', And(0 <= i, i < pats.len, Not(acceptable(pats.get(i), kind))))]
    return [('C20:same-length', result.len == pats.len),
            ('C20:all-accepted', forall(0, pats.len, lambda k: acceptable(pats.get(k), kind))),
            ('C20:elementwise-image', forall(0, pats.len, lambda k: image_ok(result.get(k), pats.get(k), kind, ic)))]


class ImageList:
    """the pattern list as expect_list sees it, read off the source patterns (markers stay markers)"""
    def __init__(self, pats, kind):
        self.pats, self.kind = pats, kind
        self.len = 0 if pats is None else (pats.len if is_listlike(pats) else 1)

    def get(self, k):
        u = as_union(self.pats.get(k) if is_listlike(self.pats) else self.pats, self.kind)
        return Pat(u.is_('eof'), u.is_('timeout'), None)


def pattern_spawn(b):
    sp, kind = spawn_shape(b, name='self', loop=True, defaults=True, extra=pattern_extra)
    b.ghost('R', b'' if (kind == 'b' and hasattr(b, 'source')) else '')
    b.ghost('clk', b.real('clk0'))
    b.ghost('nreads', 0)
    return sp, kind


def untouched(v, old, new):
    """nothing of the child's output was consumed and nothing about the last match changed"""
    return And(eq(pend_of(new), pend_of(old)), eq(sbuf_of(new), sbuf_of(old)), same(new.before, old.before),
               same(new.after, old.after), same(new.match, old.match), same(new.match_index, old.match_index),
               eq(v.g['R'], ''), eq(v.g.get('nreads', 0), v.g0.get('nreads', 0)))


class Expect(Contract):
    """expect(pattern, timeout, searchwindowsize): compile_pattern_list then expect_list -- every accepted form of
    a pattern reaches the matcher as its image, and an object that is no pattern is rejected before anything is read."""
    name = SB + '.expect'
    props = ('C01', 'C04', 'C05', 'C20')
    union_params = ('pattern',)

    def shape(self, b):
        sp, kind = pattern_spawn(b)
        return dict(self=sp, pattern=patterns_param(b, kind, 'pattern'), timeout=timeout_param(b),
                    searchwindowsize=window_param(b), async_=b.const(False))

    def requires(self, v):
        return spawn_inv(v.a.self) + param_domains(v)

    def instrument(self, args, g):
        from .expect import ghost_clock
        return ghost_clock('pexpect.expect', g)

    def outcomes(self, v):
        return expect_outcomes() + [Raises('TypeError'), Raises('UnicodeEncodeError'), Raises('UnicodeDecodeError')]

    def exits(self, v):
        return ('EOF', 'TIMEOUT', 'OSError', 'TypeError', 'UnicodeEncodeError', 'UnicodeDecodeError')

    def modifies(self, v, out):
        if out.label in ('TypeError', 'UnicodeEncodeError', 'UnicodeDecodeError'):
            return []
        return expect_modifies(v.old.self, out.label)

    def effects(self, v):
        if v.label in ('TypeError', 'UnicodeEncodeError', 'UnicodeDecodeError'):
            v.rx, v.dt, v.nr = '', 0, 0
            v.bad = v.draw(T.Int, 'bad')
            return
        expect_effects(v, v.old.self)

    def ensures(self, v):
        sp = v.old.self
        kind = 'b' if sp.encoding is None else 's'
        pats = v.old.pattern
        if v.raised in ('TypeError', 'UnicodeEncodeError', 'UnicodeDecodeError'):
            out = [('C20:rejected-before-any-output-is-consumed', untouched(v, sp, v.new.self))]
            # which element: drawn at a call site, the one compile_pattern_list named inside the function
            bad = getattr(v, 'bad', None)
            if bad is None and not getattr(v, 'concrete', False):
                bad = v.g.get('cpl.bad')
            if v.raised == 'TypeError':
                if is_listlike(pats):
                    if getattr(v, 'concrete', False):
                        bad = witness(v, 'bad', pats.len, lambda k: not acceptable(pats.get(k), kind))
                    out.append(('C20:typeerror-only-for-a-non-pattern', And(0 <= bad, bad < pats.len, Not(acceptable(pats.get(bad), kind)))))
                elif pats is not None:
                    out.append(('C20:typeerror-only-for-a-non-pattern', Not(acceptable(pats, kind))))
                else:
                    out.append(('C20:typeerror-only-for-a-non-pattern', False))
            elif not getattr(v, 'concrete', False):
                out += unicode_error_post(v.raised, pats, kind, bad)
            return out
        return expect_outcome_post(v, sp, v.new.self, effective_timeout(sp, v.old.timeout), plist=ImageList(pats, kind)) + \
            [('C20:accepted-only-patterns', True if pats is None else (forall(0, pats.len, lambda k: acceptable(pats.get(k), kind)) if is_listlike(pats) else acceptable(pats, kind)))]


# ---- expect_exact -----------------------------------------------------------------------------------------------
def exact_acceptable(u, kind):
    """expect_exact: strings and the two markers (a compiled regex is not an exact string)"""
    u = as_union(u, kind)
    ok = Or(u.is_('native'), u.is_('eof'), u.is_('timeout'))
    return Or(ok, u.is_('other')) if kind == 'b' else ok


def exact_image_ok(p, u, kind):
    """prepared element p is what source element u stands for: the marker itself, or the same text in the native type"""
    u = as_union(u, kind)
    pv = pat_val(p)
    if isinstance(pv, ClassConst):
        val_ok = False
    else:
        val_ok = ite(u.is_('native'), eq(pv, u.val('native')), eq(pv, u.val('other'))) if isinstance(u, Union) else eq(pv, u.value)
    return And(iff(pat_is_eof(p), u.is_('eof')), iff(pat_is_timeout(p), u.is_('timeout')),
               Implies(Not(Or(u.is_('eof'), u.is_('timeout'))), val_ok))


class PrepareLoop(LoopSpec):
    """[prepare_pattern(p) for p in pattern_list]"""
    def vars(self, v):
        kind = 'b' if v.old.self.encoding is None else 's'
        return {'_comp0': TSymList((('p', TPat(TStr(kind))),), True)}

    def invariant(self, v):
        kind = 'b' if v.old.self.encoding is None else 's'
        pats, out, i = v.old.pattern_list, v.l._comp0, v.l._i100
        return [('out-len', out.len == i),
                ('C20:prefix-accepted', forall(0, i, lambda k: exact_acceptable(pats.get(k), kind))),
                ('C20:prefix-is-image', forall(0, i, lambda k: exact_image_ok(out.get(k), pats.get(k), kind)))]

    def variant(self, v):
        return v.old.pattern_list.len - v.l._i100


def as_listlike(x):
    """an iterable that is not a string is the list form (expect_exact iterates whatever it is given)"""
    if is_listlike(x) or x is None:
        return x
    if isinstance(x, (tuple, dict, set, frozenset)):
        from harness.concrete import ListC
        return ListC(list(x))
    return x


class ExpectExact(Contract):
    """expect_exact(pattern_list, timeout, searchwindowsize): every accepted form reaches the exact searcher as the
    same strings; anything else is rejected before any output is consumed."""
    name = SB + '.expect_exact'
    props = ('C01', 'C04', 'C05', 'C20')
    union_params = ('pattern_list',)
    comps = {0: PrepareLoop()}

    def shape(self, b):
        sp, kind = pattern_spawn(b)
        form = b.choice('pattern_list', ['list', 'single'])
        if form == 'single':
            pl = b.union('pattern_list', pattern_alts(kind))
        else:
            pl = b.symlist('pattern_list', [('p', TUnion(pattern_alts(kind)))], scalar=True)
        return dict(self=sp, pattern_list=pl, timeout=timeout_param(b), searchwindowsize=window_param(b), async_=b.const(False))

    def requires(self, v):
        return spawn_inv(v.a.self) + param_domains(v)

    def instrument(self, args, g):
        from .expect import ghost_clock
        return ghost_clock('pexpect.expect', g)

    outcomes = Expect.outcomes

    def exits(self, v):
        return ('EOF', 'TIMEOUT', 'OSError', 'TypeError', 'UnicodeEncodeError')

    modifies = Expect.modifies
    effects = Expect.effects

    def ensures(self, v):
        sp = v.old.self
        kind = 'b' if sp.encoding is None else 's'
        pats = as_listlike(v.old.pattern_list)
        if v.raised in ('TypeError', 'UnicodeEncodeError'):
            out = [('C20:rejected-before-any-output-is-consumed', untouched(v, sp, v.new.self))]
            if v.raised == 'TypeError':
                if is_listlike(pats):
                    if getattr(v, 'concrete', False):
                        bad = witness(v, 'bad', pats.len, lambda k: not exact_acceptable(pats.get(k), kind))
                        out.append(('C20:typeerror-only-for-a-non-pattern', And(0 <= bad, bad < pats.len, Not(exact_acceptable(pats.get(bad), kind)))))
                    else:
                        i = v.l._i100      # the element being prepared when it raised
                        out.append(('C20:typeerror-only-for-a-non-pattern', And(0 <= i, i < pats.len, Not(exact_acceptable(pats.get(i), kind)))))
                else:
                    out.append(('C20:typeerror-only-for-a-non-pattern', Not(exact_acceptable(pats, kind))))
            return out
        acc = forall(0, pats.len, lambda k: exact_acceptable(pats.get(k), kind)) if is_listlike(pats) else exact_acceptable(pats, kind)
        return expect_outcome_post(v, sp, v.new.self, effective_timeout(sp, v.old.timeout), plist=ImageList(pats, kind)) + \
            [('C20:accepted-only-patterns', acc)]


# ---- read / readline: file-like reads built on expect() -----------------------------------------------------------
def file_spawn(b):
    def extra(bb, kind):
        d = pattern_extra(bb, kind)
        d.update(crlf=bb.const(b'\r\n' if kind == 'b' else '\r\n'), delimiter=bb.cls('EOF'))
        return d
    sp, kind = spawn_shape(b, name='self', loop=True, defaults=True, extra=extra)
    b.ghost('R', b'' if (kind == 'b' and hasattr(b, 'source')) else '')
    b.ghost('clk', b.real('clk0'))
    b.ghost('nreads', 0)
    return sp, kind


class ReadLine(Contract):
    """readline(size): one expect([crlf, EOF]); returns the text before the line end plus the line end, or - at EOF -
    everything that was left; size == 0 returns the empty string and touches nothing."""
    name = SB + '.readline'
    props = ('C01', 'C04')
    standin = False

    def shape(self, b):
        sp, kind = file_spawn(b)
        c = b.choice('size', ['default', 'zero', 'other'])
        size = b.const(-1) if c == 'default' else (b.const(0) if c == 'zero' else b.int('size'))
        return dict(self=sp, size=size)

    def requires(self, v):
        out = spawn_inv(v.a.self)
        if is_sym(v.a.size):
            import z3
            if not z3.is_int_value(z3.simplify(v.a.size)):
                out.append(('size-not-zero', Not(eq(v.a.size, 0))))
        return out

    def exits(self, v):
        return ('TIMEOUT', 'OSError')

    def ensures(self, v):
        old, new = v.old.self, v.new.self
        total = cat(pend_of(old), v.g['R'])
        zero = eq(v.old.size, 0) is True
        if zero:
            return [('C01:size-zero-reads-nothing', And(eq(v.result, ''), untouched(v, old, new)))]
        EOFc = ClassConst('EOF')
        if v.raised is not None:
            return [('C01+C04:failed-read-consumes-nothing', eq(pend_of(new), total))]
        if eq(new.after, EOFc) is True:
            return [('C01+C04:at-eof-returns-all-that-was-left', And(eq(v.result, total), eq(pend_of(new), '')))]
        return [('C01:line-is-before-plus-line-end', eq(v.result, cat(new.before, old.crlf))),
                ('C01:consumed-plus-pending-is-what-was-there', eq(cat(new.before, new.after, pend_of(new)), total))]


class Read(ReadLine):
    """read(size): size == 0 -> '' untouched; size < 0 -> one expect(EOF): everything up to EOF"""
    name = SB + '.read'

    def shape(self, b):
        sp, kind = file_spawn(b)
        c = b.choice('size', ['default', 'zero', 'negative', 'positive'])
        size = b.const(-1) if c == 'default' else (b.const(0) if c == 'zero' else b.int('size'))
        b.ghost('size_case', c)
        return dict(self=sp, size=size)

    def requires(self, v):
        out = spawn_inv(v.a.self)
        if v.g['size_case'] == 'negative':
            out.append(('size-negative', v.a.size < 0))
        if v.g['size_case'] == 'positive':
            out.append(('size-positive', v.a.size >= 1))
        return out

    def exits(self, v):
        return ('TIMEOUT', 'OSError')

    def ensures(self, v):
        old, new = v.old.self, v.new.self
        total = cat(pend_of(old), v.g['R'])
        if eq(v.old.size, 0) is True:
            return [('C01:size-zero-reads-nothing', And(eq(v.result, ''), untouched(v, old, new)))]
        if v.raised is not None:
            return [('C01+C04:failed-read-consumes-nothing', eq(pend_of(new), total))]
        if v.g['size_case'] == 'positive':
            # read(n): one expect([<n characters>, EOF]); what it hands back plus what stays pending is what was there
            if eq(new.after, ClassConst('EOF')) is True:
                return [('C01+C04:at-eof-returns-all-that-was-left', And(eq(v.result, total), eq(pend_of(new), '')))]
            def is_text(x):
                return isinstance(x, (str, bytes)) or (is_sym(x) and str(x.sort()) == 'String')
            if not (is_text(new.before) and is_text(new.after)):
                # no match was recorded by this call (before / after are not even strings): nothing accounts for
                # what it returned
                return [('C01:returns-what-the-match-consumed', False)]
            return [('C01:returns-what-the-match-consumed', eq(v.result, new.after)),
                    ('C01:consumed-plus-pending-is-what-was-there', eq(cat(new.before, v.result, pend_of(new)), total))]
        return [('C01+C04:returns-everything-up-to-eof', And(eq(v.result, total), eq(pend_of(new), ''), eq(new.after, ClassConst('EOF'))))]


class ReadLineOracle(Contract):
    """readline() as readlines() sees it: some text (a line, the rest of the stream, or '' at EOF); may time out"""
    name = SB + '.readline'
    only_in = 'readlines'
    params = ['self', 'size']
    defaults = {'size': -1}

    def outcomes(self, v):
        k = 'b' if v.a.self.encoding is None else 's'
        return [Ret(TStr(k)), Raises('TIMEOUT')]

    def effects(self, v):
        if v.raised is None:
            v.g['rl_concat'] = cat(v.g['rl_concat'], v.result)
            v.g['rl_last'] = v.result
            v.g['rl_calls'] = v.g['rl_calls'] + 1


class ReadLinesLoop(LoopSpec):
    def vars(self, v):
        k = 'b' if v.old.self.encoding is None else 's'
        return {'lines': TSymList((('l', TStr(k)),), True), 'line': TStr(k)}

    def ghost(self, v):
        k = 'b' if v.old.self.encoding is None else 's'
        return {'rl_concat': TStr(k), 'rl_last': TStr(k), 'rl_calls': T.Int}

    def invariant(self, v):
        return [('C01:everything-readline-returned-is-collected-in-order', eq(list_join('', v.l.lines), v.g['rl_concat'])),
                ('one-entry-per-non-empty-line', v.l.lines.len <= v.g['rl_calls'])]


class ReadLines(Contract):
    """readlines(): every line readline() hands back, in order, until readline() returns the empty string (EOF) -
    including a last line that has no line end"""
    name = SB + '.readlines'
    props = ('C01',)
    standin = False
    context = 'readlines'
    loops = {0: ReadLinesLoop()}

    def shape(self, b):
        kind = b.choice('mode', ['b', 's'])
        sp = b.obj('self', SB, sealed=False, encoding=b.none() if kind == 'b' else b.const('utf-8'),
                   after=b.any('after0'), delimiter=b.cls('EOF'))
        b.ghost('rl_concat', '')
        b.ghost('rl_last', None)
        b.ghost('rl_calls', 0)
        return dict(self=sp, sizehint=b.const(-1))

    def exits(self, v):
        return ('TIMEOUT',)

    def ensures(self, v):
        if v.raised is not None:
            return []
        g = v.g
        return [('C01:returns-every-line-in-order', eq(list_join('', v.result), g['rl_concat'])),
                ('C01:stops-only-when-readline-returns-nothing', And(g['rl_calls'] >= 1, eq(g['rl_last'], '')))]


class Iter(Contract):
    """iter(child): the lines of the stream - `iter(self.readline, <empty string of the object's own type>)`, i.e.
    exactly what successive readline() calls return (under contract above), ending at the first empty result, which
    readline gives only at EOF. A sentinel of the other string type would never compare equal: the loop would not end."""
    name = SB + '.__iter__'
    props = ('C01', 'C04')
    standin = False

    def shape(self, b):
        kind = b.choice('mode', ['b', 's'])
        sp = b.obj('self', SB, sealed=False, encoding=b.none() if kind == 'b' else b.const('utf-8'),
                   string_type=b.cls('bytes' if kind == 'b' else 'str'))
        return dict(self=sp)

    def exits(self, v):
        return ()

    def ensures(self, v):
        from pyvc.values import VObj, VFunc, VStr
        r = v.result_v
        h = v.ctx.heap[r.oid] if isinstance(r, VObj) else None
        is_it = h is not None and h.kind == 'calliter'
        out = [('C01:iterates-by-calling-something-until-a-sentinel', is_it)]
        if is_it:
            fn, sent = h.fields['fn'], h.fields['sentinel']
            out += [('C01:each-item-is-one-readline-of-this-object',
                     isinstance(fn, VFunc) and fn.kind == 'method' and fn.fi.qual.endswith('.readline')
                     and isinstance(fn.self, VObj) and fn.self.oid == v.args_v['self'].oid),
                    ('C04:ends-at-the-empty-string-of-the-objects-own-type',
                     isinstance(sent, VStr) and sent.kind == ('b' if v.old.self.encoding is None else 's') and eq(sent.t, ''))]
        return out


def register(reg):
    reg.add(Iter)
    reg.add(ReadLineOracle)
    reg.add(ReadLines)
    for c in (ReadLine, Read):
        reg.add(c)
    for c in (CoerceExpectString, CoerceExpectRe, CompilePatternList, Expect, ExpectExact):
        reg.add(c)
