"""C15: interact() as a transparent two-way pipe (pexpect/pty_spawn.py: interact, __interact_copy, __interact_writen).

The two ends are seen through oracles in force only while these functions are verified (context 'interact'):

  child side   os.read(child_fd) takes a non-empty prefix of what the child has written and pexpect has not read (Kos,
               the rely model of contracts/readpath.py), or reports EOF (b'' / EIO) iff nothing is left and the child
               is gone; os.write(child_fd, d) may write only a prefix of d (a pty master does that when its buffer is
               full) and returns how much; isalive() is False iff the child has exited.
  user side    os.read(STDIN) returns the next keystrokes (any bytes); os.write(STDOUT, d) is a blocking write to the
               user's terminal, assumed to take all of d.
  filters      input_filter / output_filter are arbitrary functions from bytes to bytes (uninterpreted, applied per read).

Ghost:  uout   bytes written to the user's stdout           want_uout  what C15 says must have been written
        cin    bytes written to the child                   want_cin   what C15 says must have been sent
        esc    the escape character was seen                tty        current terminal mode of stdin
"""
from pyvc.types import *
from pyvc.cbase import Contract, LoopSpec, Ret, Raises
from pyvc.spec import *
from .common import *
from .transports import PTY, LOGS, log_file
from .readpath import env_step, kernel_read

CTX = 'interact'
COPY = PTY + '.__interact_copy'
WRITEN = PTY + '.__interact_writen'
INTERACT = PTY + '.interact'


def _uf(name, *sorts):
    import z3
    from pyvc.spec import Val
    m = {'S': z3.StringSort(), 'V': Val, 'I': z3.IntSort(), 'B': z3.BoolSort()}
    return z3.Function(name, *[m[s] for s in sorts])


def filtered(fn, data):
    """fn(data) for an arbitrary filter function fn (None = no filter)"""
    if fn is None:
        return data
    return _uf('Filter', 'V', 'S', 'S')(fn, data)


def up_to_escape(data, esc):
    """(what of this read is delivered, escape seen): everything before the FIRST escape character, if there is one"""
    if esc is None:
        return data, False
    i = find_from(data, esc, 0)
    return ite(eq(i, -1), data, sub(data, 0, i)), Not(eq(i, -1))


def interact_spawn(b, logs=()):
    kind = b.choice('mode', ['b', 's'])
    f = dict(encoding=b.none() if kind == 'b' else b.const('utf-8'),
             child_fd=b.int('child_fd'), STDIN_FILENO=b.const(0), STDOUT_FILENO=b.const(1),
             use_poll=b.bool('use_poll'))
    for lf in LOGS:
        f[lf] = log_file(b, lf, kind) if lf in logs else b.none()
    for lf in LOGS:
        b.ghost('log:' + lf, '')
        b.ghost('unflushed:' + lf, False)
    sp = b.obj('self', PTY, sealed=False, **f)
    for k in ('uout', 'want_uout', 'cin', 'want_cin', 'rawin', 'logged_send', 'logged_read'):
        b.ghost(k, '')
    b.ghost('esc', False)
    b.ghost('Kos', b.str('Kos0', 'b'))
    b.ghost('peer', b.int('peer0'))
    b.ghost('child_fd', f['child_fd'])
    return sp, kind


def interact_requires(v):
    return [('child-fd-is-no-standard-stream', v.a.self.child_fd >= 3),
            ('peer-state', And(0 <= v.g['peer'], v.g['peer'] <= 2))]


# ---- oracles --------------------------------------------------------------------------------------------------------
class IsaliveOracle(Contract):
    name = PTY + '.isalive'
    only_in = CTX
    params = ['self']

    def outcomes(self, v):
        return [Ret(T.Bool, 'alive'), Ret(T.Bool, 'dead')]

    def effects(self, v):
        v.envc = env_step(v)

    def ensures(self, v):
        return [('env', v.envc), ('result', eq(v.result, v.label == 'alive')),
                ('dead-iff-exited', eq(v.g['peer'], 2) if v.label == 'dead' else Not(eq(v.g['peer'], 2)))]


class WaitReadable(Contract):
    """select_ignore_interrupts([child_fd, STDIN], [], []) / poll_ignore_interrupts([child_fd, STDIN]): any subset"""
    name = 'pexpect.utils.select_ignore_interrupts'
    only_in = CTX
    params = ['fds', 'w', 'x', 'timeout']
    defaults = {'w': None, 'x': None, 'timeout': None}
    as_tuple = True

    def outcomes(self, v):
        outs = []
        for lab, pick in (('none', ()), ('child', (0,)), ('user', (1,)), ('both', (0, 1))):
            def mk(interp, pre, pick=pick):
                from pyvc.values import VTuple, HObj
                items = interp.concrete_items(pre.args_v['fds'] if 'fds' in pre.args_v else pre.args_v['iwtd'])
                lst = lambda xs: interp.ctx.alloc(HObj('list', 'list', {'items': list(xs)}, closed=True))
                r = lst([items[k] for k in pick])
                return VTuple([r, lst([]), lst([])]) if self.as_tuple else r
            outs.append(Ret(T.Any, lab, make=mk))
        return outs


class WaitReadablePoll(WaitReadable):
    name = 'pexpect.utils.poll_ignore_interrupts'
    params = ['fds', 'timeout']
    defaults = {'timeout': None}
    as_tuple = False


class InteractOsRead(Contract):
    only_in = CTX
    params = ['fd', 'n']

    def outcomes(self, v):
        if eq(v.a.fd, 0) is True:
            return [Ret(T.Bytes, 'keys')]
        return [Ret(T.Bytes, 'data'), Ret(T.Bytes, 'empty'), Raises('OSError', 'EIO'), Raises('OSError', 'other')]

    def effects(self, v):
        g = v.g
        v.cons = True
        if v.label == 'keys':
            # what C15 says must reach the child of this read: all of it (through input_filter), up to the escape
            typed = filtered(g['ifilter'], v.result)
            deliver, seen = up_to_escape(typed, g['escchar'])
            g['want_cin'] = cat(g['want_cin'], deliver)
            g['esc'] = seen
            return
        if v.label == 'data':
            v.chunk, v.cons = kernel_read(v, v.old.n, 'data')
            # ... and what must reach the user: this chunk (through output_filter)
            g['want_uout'] = cat(g['want_uout'], filtered(g['ofilter'], v.chunk))
        elif v.label in ('empty', 'EIO'):
            _, v.cons = kernel_read(v, v.old.n, 'eof')
        if v.raised is not None:
            import errno
            from pyvc.values import VTuple, VInt
            h = v.ctx.heap[v.exc.oid]
            if v.label == 'EIO':
                h.fields['args'] = VTuple([VInt(errno.EIO)])
            else:
                other = v.ctx.fresh(T.Int, 'errno')
                v.ctx.assume(other.t != errno.EIO)
                h.fields['args'] = VTuple([other])

    def ensures(self, v):
        g = v.g
        if v.label == 'keys':
            return []
        out = [('kernel', v.cons), ('is-the-child', eq(v.old.fd, g['child_fd']))]
        if v.label == 'data':
            out.append(('chunk', eq(v.result, v.chunk)))
        if v.label == 'empty':
            out.append(('empty', eq(v.result, '')))
        return out


class InteractOsWrite(Contract):
    only_in = CTX
    params = ['fd', 'b']

    def outcomes(self, v):
        return [Ret(T.Int)]

    def effects(self, v):
        g = v.g
        if eq(v.old.fd, 1) is True:
            g['uout'] = cat(g['uout'], v.old.b)
        else:
            g['cin'] = cat(g['cin'], sub(v.old.b, 0, v.result))

    def ensures(self, v):
        if eq(v.old.fd, 1) is True:
            return [('terminal-takes-all', eq(v.result, length(v.old.b)))]
        return [('is-the-child', eq(v.old.fd, v.g['child_fd'])),
                ('partial', And(0 <= v.result, v.result <= length(v.old.b), Implies(length(v.old.b) >= 1, v.result >= 1)))]


class FilterCall(Contract):
    """input_filter(data) / output_filter(data): some function of the data (bytes in, bytes out)"""
    only_in = CTX
    params = ['fn', 'data']

    def outcomes(self, v):
        def mk(interp, pre):
            from pyvc.values import VStr
            return VStr(filtered(pre.a.fn, pre.a.data), 'b')
        return [Ret(T.Bytes, make=mk)]


class LogOracle(Contract):
    """_log(s, direction): appends s to the log files (proved under C11) -- it expects the API string type"""
    name = 'pexpect.spawnbase.SpawnBase._log'
    only_in = CTX
    params = ['self', 's', 'direction']

    def outcomes(self, v):
        from pyvc.values import VStr
        k = 'b' if v.a.self.encoding is None else 's'
        a = v.args_v.get('s')
        any_log = any(getattr(v.a.self, f) is not None for f in LOGS)
        if any_log and not (isinstance(a, VStr) and a.kind == k):
            # a log file of a unicode-mode object takes str: file.write(bytes) raises TypeError
            return [Raises('TypeError')]
        return [Ret(T.NoneT)]

    def effects(self, v):
        # what _log was asked to record, per direction (C11 during interact())
        d = v.old.direction
        key = 'logged_send' if (d == 'send' or eq(d, 'send') is True) else 'logged_read'
        v.g[key] = cat(v.g[key], v.old.s)


# ---- __interact_writen --------------------------------------------------------------------------------------------
class WritenLoop(LoopSpec):
    def vars(self, v):
        return {'data': T.Bytes, 'n': T.Int}

    ghost = {'cin': T.Bytes, 'Kos': T.Bytes, 'peer': T.Int}

    def invariant(self, v):
        d0 = v.old.data
        return [('sent-so-far-plus-rest-is-the-data', eq(cat(sub(v.g['cin'], length(v.g0['cin']), length(v.g['cin'])), v.l.data), d0)),
                ('appends-only', prefix_of(v.g0['cin'], v.g['cin'])),
                ('peer-state', And(0 <= v.g['peer'], v.g['peer'] <= 2))]


class InteractWriten(Contract):
    name = WRITEN
    props = ('C15',)
    standin = False
    context = CTX
    loops = {0: WritenLoop()}

    def shape(self, b):
        sp, kind = interact_spawn(b)
        return dict(self=sp, fd=sp_field(b, sp, 'child_fd'), data=b.str('data', 'b'))

    def requires(self, v):
        return interact_requires(v)

    def exits(self, v):
        return ()

    def effects(self, v):
        # as a callee: some prefix of the data went to the child
        v.wsent = v.draw(T.Bytes, 'wsent')
        v.envc = env_step(v)
        v.g['cin'] = cat(v.g['cin'], v.wsent)

    def ensures(self, v):
        g = v.g
        sent = sub(g['cin'], length(v.g0['cin']), length(g['cin']))
        out = [('C15:writes-the-data-in-order', And(prefix_of(v.g0['cin'], g['cin']), prefix_of(sent, v.old.data))),
               ('C15:all-of-it-unless-the-child-is-gone', Or(eq(sent, v.old.data), eq(g['peer'], 2))),
               ('peer-state', And(0 <= g['peer'], g['peer'] <= 2))]
        if getattr(v, 'envc', None) is not None:
            out.append(('env', v.envc))
            out.append(('is-the-drawn-prefix', eq(sent, v.wsent)))
        return out


def sp_field(b, sp, name):
    if hasattr(b, 'ctx'):
        return b.ctx.heap[sp.oid].fields[name]
    return getattr(sp, name)


# ---- __interact_copy ------------------------------------------------------------------------------------------------
def copy_inv(v, g):
    return [('C15:child-output-reaches-the-user-unchanged-and-in-order', eq(g['uout'], g['want_uout'])),
            ('C15:keystrokes-reach-the-child-unchanged-and-in-order', prefix_of(g['cin'], g['want_cin'])),
            ('C15:no-keystroke-is-dropped-while-the-child-lives', Or(eq(g['cin'], g['want_cin']), eq(g['peer'], 2))),
            ('peer-state', And(0 <= g['peer'], g['peer'] <= 2)),
            # C11 during interact(): the read log gets what the user is shown, the send log what is forwarded to the
            # child - in particular neither the escape character nor what follows it
            ('C11+C15:read-log-is-what-the-user-is-shown', eq(g['logged_read'], g['want_uout'])),
            ('C11+C15:send-log-is-what-is-forwarded-to-the-child', eq(g['logged_send'], g['want_cin']))]


class CopyLoop(LoopSpec):
    def vars(self, v):
        return {'data': T.Bytes, 'i': T.Int}

    ghost = {'uout': T.Bytes, 'want_uout': T.Bytes, 'cin': T.Bytes, 'want_cin': T.Bytes, 'Kos': T.Bytes, 'peer': T.Int,
             'rawin': T.Bytes, 'esc': T.Bool, 'logged_send': T.Bytes, 'logged_read': T.Bytes}

    def ghost_extra(self, v):
        return {}

    def invariant(self, v):
        return copy_inv(v, v.g) + [('escape-not-seen-yet', v.g['esc'] is False or (is_sym(v.g['esc']) and Not(v.g['esc'])))]


class InteractCopy(Contract):
    name = COPY
    props = ('C15', 'C11')
    standin = False
    context = CTX
    loops = {0: CopyLoop()}

    def shape(self, b):
        logs = LOGS if b.choice('logs', ['none', 'all']) == 'all' else ()
        sp, kind = interact_spawn(b, logs)
        esc = b.opt('escape_character', lambda: b.str('escape_character', 'b'))
        inf = b.opt('input_filter', lambda: b.any('input_filter'))
        outf = b.opt('output_filter', lambda: b.any('output_filter'))
        b.ghost('ifilter', inf)
        b.ghost('ofilter', outf)
        b.ghost('escchar', esc)
        return dict(self=sp, escape_character=esc, input_filter=inf, output_filter=outf)

    def requires(self, v):
        out = interact_requires(v)
        if v.a.escape_character is not None:
            out.append(('escape-is-a-character', length(v.a.escape_character) >= 1))
        for f in ('input_filter', 'output_filter'):
            x = getattr(v.a, f)
            if x is not None:
                out.append((f + '-is-a-function', _uf('truthy', 'V', 'B')(x)))
        return out

    def exits(self, v):
        return ('OSError',)

    def ensures(self, v):
        g = v.g
        out = copy_inv(v, g)
        if v.raised is None:
            esc = g['esc']
            out += [('C15:returns-only-on-the-escape-character-or-when-the-child-is-gone',
                     Or(esc, Not(eq(g['peer'], 0)))),
                    ('C15:nothing-the-child-wrote-is-left-behind', Implies(Not(esc), eq(g['Kos'], '')))]
        return out


# ---- interact ------------------------------------------------------------------------------------------------------
class TcGetAttr(Contract):
    params = ['fd']

    def outcomes(self, v):
        def mk(interp, pre):
            from pyvc.values import VAny
            return VAny(pre.g['tty'], notnone=True)
        return [Ret(T.Any, make=mk)]


class SetRaw(Contract):
    params = ['fd']

    def effects(self, v):
        v.g['tty'] = _uf('RawMode', 'V', 'V')(v.g['tty'])
        v.g['tty_sets'] = v.g.get('tty_sets', 0) + 1


class TcSetAttr(Contract):
    params = ['fd', 'when', 'mode']

    def effects(self, v):
        v.g['tty'] = v.old.mode
        v.g['tty_sets'] = v.g.get('tty_sets', 0) + 1


class WriteToStdout(Contract):
    """self.write_to_stdout(text): the text goes to the user's stdout (through sys.stdout, flushed by the caller)"""
    only_in = CTX
    params = ['fn', 'text']

    def requires(self, v):
        return [('C15:pending-output-goes-first', eq(v.g['uout'], ''))]

    def effects(self, v):
        v.g['flushed_text'] = v.old.text
        v.g['nflush'] = v.g.get('nflush', 0) + 1


class CopyOracle(Contract):
    """__interact_copy as interact() sees it: returns or raises; what it does is proved above"""
    name = COPY
    only_in = 'interact-outer'
    params = ['self', 'escape_character', 'input_filter', 'output_filter']
    defaults = {'escape_character': None, 'input_filter': None, 'output_filter': None}

    def outcomes(self, v):
        return [Ret(T.NoneT), Raises('OSError')]

    def requires(self, v):
        return [('C15:raw-mode-while-copying', Not(eq(v.g['tty'], v.g['tty0']))) if False else ('C15:mode-was-saved-first', v.g.get('tty_sets', 0) == 1)]

    def effects(self, v):
        v.g['copy_args'] = (v.old.escape_character, v.old.input_filter, v.old.output_filter)
        v.g['copied'] = v.g.get('copied', 0) + 1


class StdoutFlush(Contract):
    params = ['self']

    def effects(self, v):
        v.g['stdout_flushed'] = v.g.get('nflush', 0)


class Interact(Contract):
    name = INTERACT
    props = ('C15',)
    standin = False
    context = 'interact-outer'

    def shape(self, b):
        kind = b.choice('mode', ['b', 's'])
        from .common import spawn_shape
        f = dict(encoding=b.none() if kind == 'b' else b.const('utf-8'), STDIN_FILENO=b.const(0), STDOUT_FILENO=b.const(1),
                 _buffer=b.io('sbuf', kind), buffer_type=b.cls('BytesIO' if kind == 'b' else 'StringIO'),
                 write_to_stdout=b.any('write_to_stdout'), stdout=b.obj('stdout', 'iface:stdout', sealed=True))
        sp = b.obj('self', PTY, sealed=False, **f)
        b.ghost('uout', '')
        tty0 = b.any('tty0')
        b.ghost('tty', tty0)
        b.ghost('tty0', tty0)
        esc = b.opt('escape_character', lambda: b.str('escape_character', 's'))
        inf = b.opt('input_filter', lambda: b.any('input_filter'))
        outf = b.opt('output_filter', lambda: b.any('output_filter'))
        return dict(self=sp, escape_character=esc, input_filter=inf, output_filter=outf)

    def requires(self, v):
        return [('buffer-at-end', eq(v.a.self._buffer.pos, length(v.a.self._buffer.content)))]

    def exits(self, v):
        return ('OSError', 'UnicodeEncodeError')

    def ensures(self, v):
        g = v.g
        old, new = v.old.self, v.new.self
        out = [('C15:terminal-mode-is-restored', eq(g['tty'], g['tty0']))]
        if v.raised == 'UnicodeEncodeError':
            return out
        out += [('C15:pending-output-is-shown-first', And(g.get('nflush', 0) == 1, eq(g['flushed_text'], old._buffer.content),
                                                           g.get('stdout_flushed', 0) == 1)),
                ('C15:pending-output-is-not-shown-twice', eq(new._buffer.content, '')),
                ('C15:copies-once-with-the-given-filters', And(g.get('copied', 0) == 1, same(g['copy_args'][1], v.old.input_filter),
                                                               same(g['copy_args'][2], v.old.output_filter))),
                ('C15:escape-character-is-passed-as-its-byte',
                 True if v.old.escape_character is None else eq(g['copy_args'][0], _uf('encode_latin1', 'S', 'S')(v.old.escape_character)))]
        if v.old.escape_character is None:
            out.append(('C15:no-escape-character-means-none', g['copy_args'][0] is None))
        return out


def register(reg):
    reg.add(IsaliveOracle)
    reg.add(WaitReadable)
    reg.add(WaitReadablePoll)
    reg.add_extern('os.read', InteractOsRead)
    reg.add_extern('os.write', InteractOsWrite)
    reg.add_extern('opaque.__call__', FilterCall)
    reg.add(LogOracle)
    reg.add(InteractWriten)
    reg.add(InteractCopy)
    reg.add(CopyOracle)
    reg.add(Interact)
    reg.add_extern('tty.tcgetattr', TcGetAttr)
    reg.add_extern('tty.setraw', SetRaw)
    reg.add_extern('tty.tcsetattr', TcSetAttr)
    wts = WriteToStdout()
    wts.only_in = 'interact-outer'
    reg.add_extern('opaque.__call__', wts)
    reg.add_iface('iface:stdout', 'flush', StdoutFlush)
