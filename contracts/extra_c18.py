"""C18-specific steps of the check: transition-table analysis, replay of table failures, Lean meta-lemmas."""
import json, os, subprocess, time


def path_to(table, target):
    """a symbol sequence driving the real terminal from the initial state to `target` (BFS over the table)"""
    from collections import deque
    init = table['initial']
    prev = {init: None}
    q = deque([init])
    while q:
        s = q.popleft()
        if s == target:
            break
        for sym, st, a, nx in table['exact']:
            if st == s and nx not in prev:
                prev[nx] = (s, sym)
                q.append(nx)
    if target not in prev:
        return None
    seq = []
    s = target
    while prev[s] is not None:
        s, sym = prev[s]
        seq.append(sym)
    return ''.join(reversed(seq))


def run(tier, repo, here, pyrun):
    from pyvc.fsmtable import analyse
    from contracts.ansi import META
    env = dict(os.environ, VERIF_REPO=repo, PYTHONPATH=repo)
    t0 = time.time()
    p = subprocess.run([pyrun, os.path.join(here, 'harness', 'fsm_table.py')], capture_output=True, text=True, env=env)
    out = {'obligations': 0, 'discharged': 0, 'violations': [], 'trusted': [], 'notes': {}}
    if p.returncode != 0:
        out['fault'] = 'transition table extraction failed: ' + p.stderr[-500:]
        return out
    table = json.loads(p.stdout)
    n, failures, depth = analyse(table, META)
    out['obligations'] += n
    out['discharged'] += n - len(failures)
    out['notes']['fsm_table'] = {'entries': len(table['exact']), 'any': len(table['any']), 'default': table['default'],
                                 'memory_depth_per_state': {k: list(v) if v else None for k, v in depth.items()}}
    out['trusted'].append('transition table extracted by running the real ANSI.__init__ (the table is data); '
                          'FSM.add_transition* are exercised by that run, not separately under contract')
    for f in failures:
        label = f.split(':')[0]
        feed = None
        try:
            inner = label.strip('()').split(', ')
            st = inner[-1]
            pre = path_to(table, st)
            if pre is not None:
                sym = inner[0].strip("'\"") if inner[0] not in ('any', 'default', 'undefined') else '~'
                feed = pre + sym + 'x'
        except Exception:
            pass
        v = {'contract': 'pexpect.ANSI.ANSI.process', 'obligation': 'fsm-table.' + label, 'kind': 'no-failing-input-found',
             'detail': f, 'solver': 'table analysis (pyvc/fsmtable.py)'}
        if feed is not None:
            r = subprocess.run([pyrun, os.path.join(here, 'harness', 'ansi_replay.py')], input=json.dumps({'pieces': [feed]}),
                               capture_output=True, text=True, env=env)
            try:
                res = json.loads(r.stdout)
            except ValueError:
                res = {'error': r.stderr[-300:]}
            bad = res.get('raised') or (res.get('state') == table['initial'] and res.get('memory_len') != 1) \
                or res.get('rows') != 3 or res.get('row_lengths') != [4]
            if bad:
                v['kind'] = 'replayed-counterexample'
                v['replay'] = {'feed': feed, 'observed': res}
        out['violations'].append(v)
    # the two meta-lemmas (thorough tier: re-checked by Lean; quick tier: trusted as checked at commit time)
    lean = os.path.join(here, 'lemmas', 'History.lean')
    if tier == 'thorough':
        r = subprocess.run(['lean', lean], capture_output=True, text=True)
        out['obligations'] += 2
        if r.returncode == 0:
            out['discharged'] += 2
            out['notes']['lean'] = 'lemmas/History.lean accepted by lean 4'
        else:
            out['notes']['lean'] = 'lean failed: ' + (r.stdout + r.stderr)[-300:]
    else:
        out['trusted'].append('lemmas/History.lean (modular induction, fold chunk-independence): re-checked by lean only in the thorough tier')
    out['notes']['seconds'] = round(time.time() - t0, 2)
    return out
