"""Contracts for pexpect/ANSI.py and pexpect/FSM.py (C18).

FSM memory = [screen] ++ (elements the action never touches) ++ digit strings.  Every action gets
{depth, tops are digit strings} action {depth', tops'} plus the screen representation invariant and
"never raises".  check.py combines these per-action facts with the transition table extracted from
the real ANSI.__init__ (data, not code) by a complete abstract interpretation of the table."""
from pyvc.types import *
from pyvc.cbase import Contract, LoopSpec, Ret, Raises
from pyvc.spec import *
from .screen import inv, INV_scr, screen_shape, fields_same, rows_same, grid_same, cl, ScreenContract, TGridCell, FIELDS

ANSI = 'pexpect.ANSI.'
ANSICLS = 'pexpect.ANSI.ANSI'
FSMCLS = 'pexpect.FSM.FSM'


def fsm_shape(b, pops, digit_symbol=False):
    scr = screen_shape(b, cls=ANSICLS)
    items = [scr, b.hidden('untouched')] + [b.str('num%d' % i, 's') for i in range(pops)]
    mem = b.list(items)
    sym = b.str('input_symbol', 's')
    fsm = b.obj('fsm', FSMCLS, sealed=False, memory=mem, input_symbol=sym, current_state=b.str('current_state', 's'),
                next_state=b.any('next_state0'), action=b.any('action0'))
    return fsm, scr


def mem_requires(v, pops, digit_symbol):
    fsm = v.a.fsm
    out = inv('inv', fsm.memory.get(0), v.g)
    for i in range(pops):
        d = fsm.memory.last(pops - i)
        out.append(('top%d-is-a-number' % i, And(is_digits(d), length(d) >= 1)))
    out.append(('one-symbol', eq(length(fsm.input_symbol), 1)))
    if digit_symbol:
        out.append(('symbol-is-a-digit', is_digits(fsm.input_symbol)))
    return out


class Action(Contract):
    """A transition action  Do*(fsm).  meta: pops / pushes / reset describe its effect on the memory depth."""
    props = ('C18',)
    pops = 0
    pushes = 0
    reset = False
    digit_symbol = False
    screen_changes = True

    def shape(self, b):
        fsm, scr = fsm_shape(b, self.pops, self.digit_symbol)
        return dict(fsm=fsm)

    def requires(self, v):
        return mem_requires(v, self.pops, self.digit_symbol)

    def exits(self, v):
        return ()               # C18: feeding the terminal never raises

    def modifies(self, v, out):
        fsm = v.old.fsm
        scr = fsm.memory.get(0)
        m = [(fsm, 'memory', T('MemList'))]
        if self.screen_changes:
            m += [(scr, f, T.Int) for f in FIELDS if f not in ('rows', 'cols')]
            m += [(scr.w, 'cell', TGridCell()), (scr.w, 'rowid', T('GridIds')), (scr.w, 'rowlen', T('GridIds'))]
        return m

    def ensures(self, v):
        old, new = v.old.fsm, v.new.fsm
        scr0 = old.memory.get(0)
        out = [('C18:screen-stays-first', eq(new.memory.get(0), scr0))]
        scr1 = new.memory.get(0)
        out += inv('C18:inv', scr1, v.g)
        out.append(('C18:size-unchanged', And(eq(scr1.rows, scr0.rows), eq(scr1.cols, scr0.cols))))
        if self.reset:
            out.append(('C18:memory-reset', eq(new.memory.len, 1)))
        else:
            out.append(('C18:memory-depth', eq(new.memory.len, old.memory.len - self.pops + self.pushes)))
        for i in range(self.pushes):
            d = new.memory.last(self.pushes - i)
            out.append(('C18:pushed-number-%d' % i, And(is_digits(d), length(d) >= 1)))
        return out + self.post(v)

    def post(self, v):
        return []


def action(name, pops=0, pushes=0, reset=False, digit_symbol=False, post=None, screen_changes=True):
    d = dict(name=ANSI + name, pops=pops, pushes=pushes, reset=reset, digit_symbol=digit_symbol,
             screen_changes=screen_changes)
    if post is not None:
        d['post'] = lambda self, v: post(v)
    return type('Action_' + name.replace('.', '_'), (Action,), d)


def num(v, k):
    """integer value of the k-th number from the top of the stack at entry (1 = top)"""
    return int_of(v.old.fsm.memory.last(k))


def scr(v):
    return v.old.fsm.memory.get(0), v.new.fsm.memory.get(0)


def cursor_post(fr, fc):
    def post(v):
        o, n = scr(v)
        r, c = fr(v, o), fc(v, o)
        return [('C18:cursor', And(eq(n.cur_r, cl(r, o.rows)), eq(n.cur_c, cl(c, o.cols)))),
                ('C18:cells-unchanged', grid_same(o, n))]
    return post


ACTIONS = [
    action('DoEmit'),
    action('DoStartNumber', pushes=1, digit_symbol=True, screen_changes=False),
    action('DoBuildNumber', pops=1, pushes=1, digit_symbol=True, screen_changes=False),
    action('DoBackOne', post=cursor_post(lambda v, o: o.cur_r, lambda v, o: o.cur_c - 1)),
    action('DoBack', pops=1, post=cursor_post(lambda v, o: o.cur_r, lambda v, o: o.cur_c - num(v, 1))),
    action('DoDownOne', post=cursor_post(lambda v, o: o.cur_r + 1, lambda v, o: o.cur_c)),
    action('DoDown', pops=1, post=cursor_post(lambda v, o: o.cur_r + num(v, 1), lambda v, o: o.cur_c)),
    action('DoForwardOne', post=cursor_post(lambda v, o: o.cur_r, lambda v, o: o.cur_c + 1)),
    action('DoForward', pops=1, post=cursor_post(lambda v, o: o.cur_r, lambda v, o: o.cur_c + num(v, 1))),
    action('DoUpReverse'),
    action('DoUpOne', post=cursor_post(lambda v, o: o.cur_r - 1, lambda v, o: o.cur_c)),
    action('DoUp', pops=1, post=cursor_post(lambda v, o: o.cur_r - num(v, 1), lambda v, o: o.cur_c)),
    action('DoHome', pops=2, post=cursor_post(lambda v, o: num(v, 2), lambda v, o: num(v, 1))),
    action('DoHomeOrigin', post=cursor_post(lambda v, o: 1, lambda v, o: 1)),
    action('DoEraseDown'),
    action('DoErase', pops=1),
    action('DoEraseEndOfLine'),
    action('DoEraseLine', pops=1),
    action('DoEnableScroll'),
    action('DoCursorSave'),
    action('DoCursorRestore'),
    action('DoScrollRegion', pops=2, post=lambda v: [
        ('C18:scroll-region', And(eq(scr(v)[1].scroll_row_start, cl(num(v, 2), scr(v)[0].rows)),
                                  eq(scr(v)[1].scroll_row_end, cl(num(v, 1), scr(v)[0].rows))))]),
    action('DoMode', pops=1, screen_changes=False),
    action('DoLog', reset=True, screen_changes=False),
    action('ANSI.do_sgr', reset=True, screen_changes=False),
    action('ANSI.do_decsca', reset=True, screen_changes=False),
    action('ANSI.do_modecrap', reset=True, screen_changes=False),
]


def method_shape(self, b):
    fsm, scr = fsm_shape(b, 0)
    return dict(self=scr, fsm=fsm)


for _c in ACTIONS:
    if _c.name.startswith(ANSI + 'ANSI.'):
        _c.shape = method_shape


META = {c.name.split('.')[-1]: dict(pops=c.pops, pushes=c.pushes, reset=c.reset, digit_symbol=c.digit_symbol)
        for c in ACTIONS}


class WriteCh(ScreenContract):
    """ANSI.write_ch(ch): put the character (CR, LF, BS handled), advance with wrap-around and scrolling."""
    name = ANSICLS + '.write_ch'
    props = ('C18',)
    changes = ('cur_r', 'cur_c')

    def shape(self, b):
        return dict(self=screen_shape(b, cls=ANSICLS), ch=b.str('ch', 's'))

    def requires(self, v):
        return inv('inv', v.a.self, v.g) + [('non-empty-character', length(v.a.ch) >= 1)]

    def modifies(self, v, out):
        s = v.old.self
        return [(s, 'cur_r', T.Int), (s, 'cur_c', T.Int), (s.w, 'cell', TGridCell()), (s.w, 'rowid', T('GridIds')),
                (s.w, 'rowlen', T('GridIds'))]

    def base(self, v):
        old, new = v.old.self, v.new.self
        return inv('inv', new, v.g) + [('C18:fields-unchanged', fields_same(old, new, ('cur_r', 'cur_c')))]


# ---- FSM ---------------------------------------------------------------------------------------------
class GetTransition(Contract):
    name = FSMCLS + '.get_transition'
    props = ('C18',)

    def shape(self, b):
        dt = b.opt('default_transition', lambda: b.tuple(b.opt('default.action', lambda: b.any('default.action')),
                                                         b.str('default.next', 's')))
        me = b.obj('self', FSMCLS, sealed=False, state_transitions=b.symdict('T', 2),
                   state_transitions_any=b.symdict('A', 1), default_transition=dt)
        return dict(self=me, input_symbol=b.str('input_symbol', 's'), state=b.str('state', 's'))

    def outcomes(self, v):
        return [Ret(T('Tuple', TOpt(T.Any), T.Text)), Raises('ExceptionFSM')]

    def exits(self, v):
        return ('ExceptionFSM',)

    def ensures(self, v):
        me = v.old.self
        sym, st = v.old.input_symbol, v.old.state
        exact, anyst = me.state_transitions.has(sym, st), me.state_transitions_any.has(st)
        dflt = me.default_transition
        if v.raised is not None:
            return [('C18:undefined-only-when-nothing-matches', And(Not(exact), Not(anyst), dflt is None))]
        res = v.result
        out = [('C18:exact-entry-first', Implies(exact, eq(res, me.state_transitions.get(sym, st)))),
               ('C18:then-any-symbol-entry', Implies(And(Not(exact), anyst), eq(res, me.state_transitions_any.get(st))))]
        if dflt is not None:
            out.append(('C18:then-default', Implies(And(Not(exact), Not(anyst)), eq(res, dflt))))
        else:
            out.append(('C18:no-default-no-result', Or(exact, anyst)))
        return out


class ActionCallback(Contract):
    """Assumed contract of a transition action called through `self.action(self)`: it may change the
    memory list (and what hangs off it) but not the FSM's state fields.  Every action in ANSI.py is proved
    to respect this frame (their `modifies` clauses); user-supplied actions are covered by assumption."""
    params = ['action', 'fsm']

    def effects(self, v):
        v.g['calls'] = v.g.get('calls', 0) + 1
        v.g['callee'] = v.old.action

    def outcomes(self, v):
        def mk(interp, pre):
            from pyvc.values import VAny
            from pyvc.spec import Val
            return VAny(interp.ctx._const('called', Val), notnone=True)
        return [Ret(T.Any, make=mk)]

    def modifies(self, v, out):
        fsm = v.old.fsm
        if hasattr(fsm, 'has') and fsm.has('memory'):
            return [(fsm, 'memory', T.Any)]
        return []


class FsmProcess(Contract):
    name = FSMCLS + '.process'
    props = ('C18',)

    def shape(self, b):
        dt = b.opt('default_transition', lambda: b.tuple(b.opt('default.action', lambda: b.any('default.action')),
                                                         b.str('default.next', 's')))
        me = b.obj('self', FSMCLS, sealed=False, state_transitions=b.symdict('T', 2),
                   state_transitions_any=b.symdict('A', 1), default_transition=dt,
                   input_symbol=b.any('input_symbol0'), current_state=b.str('current_state', 's'),
                   next_state=b.any('next_state0'), action=b.any('action0'), memory=b.any('memory0'))
        b.ghost('calls', 0)
        b.ghost('callee', None)
        return dict(self=me, input_symbol=b.str('input_symbol', 's'))

    def outcomes(self, v):
        return [Ret(T.NoneT), Raises('ExceptionFSM')]

    def exits(self, v):
        return ('ExceptionFSM',)

    def ensures(self, v):
        me, new = v.old.self, v.new.self
        sym, st = v.old.input_symbol, me.current_state
        exact, anyst = me.state_transitions.has(sym, st), me.state_transitions_any.has(st)
        dflt = me.default_transition
        if v.raised is not None:
            return [('C18:undefined-only-when-nothing-matches', And(Not(exact), Not(anyst), dflt is None)),
                    ('C18:state-kept-on-error', eq(new.current_state, st))]
        chosen_exact, chosen_any = me.state_transitions.get(sym, st), me.state_transitions_any.get(st)

        def chosen(k):
            d = dflt[k] if dflt is not None else (None if k == 0 else '')
            if k == 0:
                return None
            return ite(exact, chosen_exact[1], ite(anyst, chosen_any[1], d))
        act_none = ite(exact, chosen_exact[0].is_none, ite(anyst, chosen_any[0].is_none,
                                                           True if dflt is None else is_none(dflt[0])))
        return [('C18:symbol-recorded', eq(new.input_symbol, sym)),
                ('C18:moves-to-the-table-entry', eq(new.current_state, chosen(1))),
                ('C18:next-state-cleared', is_none(new.next_state)),
                ('C18:action-called-once-iff-present', eq(v.g['calls'], ite(act_none, 0, 1)))]


def in_sync(v, term, st):
    """the concrete terminal is the one the abstract state st describes (symbolic mode only: st is the fold of
    process over the characters fed so far; anything write() does besides feeding characters breaks it)"""
    if getattr(v, 'concrete', False) or st is None:
        return True
    return And(eq(term.state.current_state, TermCur(st)), eq(term.cur_r, TermR(st)), eq(term.cur_c, TermC(st)))


def ansi_shape(b):
    if hasattr(b, 'source'):
        # concrete mode: a real terminal built by the real constructor, then put into the drawn state
        import warnings
        warnings.simplefilter('ignore')
        from pexpect import ANSI as A
        rows, cols = b.int('rows'), b.int('cols')
        if not (1 <= rows <= 4 and 1 <= cols <= 4):
            from harness.concrete import OutOfDomain
            raise OutOfDomain('screen size')
        t = A.ANSI(rows, cols)
        t.cur_r, t.cur_c = b.int('cur_r'), b.int('cur_c')
        t.cur_saved_r = t.cur_saved_c = 1
        t.scroll_row_start, t.scroll_row_end = b.int('scroll_row_start'), b.int('scroll_row_end')
        for i in range(rows):
            for j in range(cols):
                t.w[i][j] = b.str('w[%d][%d]' % (i, j), 's') or ' '
        b.ghost('nextid', 0)
        return t
    fsm = b.obj('fsm', FSMCLS, sealed=False, current_state=b.str('current_state', 's'), initial_state=b.const('INIT'),
                input_symbol=b.any('input_symbol0'), next_state=b.any('next_state0'), action=b.any('action0'),
                memory=b.any('memory0'))
    return screen_shape(b, cls=ANSICLS, extra=dict(state=fsm))


class AnsiProcess(ScreenContract):
    """ANSI.process(c) for one character of text.  Its invariant preservation is NOT proved by the engine in
    one piece: it is the composition of FSM.process (contract above), the per-action contracts and the
    complete analysis of the extracted transition table (pyvc/fsmtable.py), all of which run in the C18 check.
    Ghost: fed = the characters fed to the state machine so far."""
    name = ANSICLS + '.process'
    props = ('C18',)
    composed = True

    def requires(self, v):
        return inv('inv', v.a.self, v.g) + [('one-character', eq(length(v.a.c), 1)),
                                            ('state-in-sync', in_sync(v, v.a.self, v.g.get('st')))]

    def modifies(self, v, out):
        s = v.old.self
        return [(s, f, T.Int) for f in FIELDS if f not in ('rows', 'cols')] + \
               [(s.w, 'cell', TGridCell()), (s.w, 'rowid', T('GridIds')), (s.w, 'rowlen', T('GridIds')),
                (s.state, 'current_state', T.Text), (s.state, 'input_symbol', T.Text)]

    def effects(self, v):
        v.g['fed'] = cat(v.g['fed'], v.old.c)
        if v.g.get('st') is not None and not getattr(v, 'concrete', False):
            v.g['st'] = TermProc(v.g['st'], v.old.c)

    def base(self, v):
        old, new = v.old.self, v.new.self
        return inv('inv', new, v.g) + [('size', And(eq(new.rows, old.rows), eq(new.cols, old.cols))),
                                       ('state-in-sync', in_sync(v, new, v.g.get('st')))]


class WriteLoop(LoopSpec):
    vars = {'c': T.Text}
    ghost = {'fed': T.Text, 'st': T.Any}

    def modifies(self, v):
        s = v.l.self
        return [(s, f, T.Int) for f in FIELDS if f not in ('rows', 'cols')] + \
               [(s.w, 'cell', TGridCell()), (s.w, 'rowid', T('GridIds')), (s.w, 'rowlen', T('GridIds')),
                (s.state, 'current_state', T.Text), (s.state, 'input_symbol', T.Text)]

    def invariant(self, v):
        s = v.l.s
        i = v.l._i0
        return inv('inv', v.l.self, v.g) + [
            ('size', And(eq(v.l.self.rows, v.old.self.rows), eq(v.l.self.cols, v.old.self.cols))),
            # the state machine has been fed exactly the first i characters, in order, nothing else
            ('fed-prefix', eq(v.g['fed'], cat(v.g0['fed'], sub(s, 0, i)))),
            ('state-in-sync', in_sync(v, v.l.self, v.g.get('st')))]


class AnsiWrite(ScreenContract):
    """write(s) for text feeds every character of s to process(), in order and nothing else: the terminal
    state after write(a + b) is the state after write(a); write(b) (fold over the characters; the meta-step
    foldl f x (a ++ b) = foldl f (foldl f x a) b is the Lean lemma lemmas/History.lean)."""
    name = ANSICLS + '.write'
    props = ('C18',)
    loops = {0: WriteLoop()}

    def shape(self, b):
        b.ghost('fed', b.str('fed0', 's'))
        b.ghost('st', b.any('st0'))
        return dict(self=ansi_shape(b), s=b.str('s', 's'))

    def requires(self, v):
        return inv('inv', v.a.self, v.g) + [('state-in-sync', in_sync(v, v.a.self, v.g.get('st')))]

    def instrument(self, args, g):
        """concrete mode: record what is fed to process()"""
        term = args['self']
        orig = term.process

        def process(c):
            g['fed'] = g['fed'] + c
            return orig(c)
        term.process = process

    def modifies(self, v, out):
        return AnsiProcess.modifies(self, v, out)

    def base(self, v):
        old, new = v.old.self, v.new.self
        return inv('inv', new, v.g) + [('size', And(eq(new.rows, old.rows), eq(new.cols, old.cols)))]

    def post(self, v):
        return [('C18:feeds-exactly-the-text-in-order', eq(v.g['fed'], cat(v.g0['fed'], v.old.s))),
                ('C18:does-nothing-else-to-the-terminal', in_sync(v, v.new.self, v.g.get('st')))]


class AnsiFlush(ScreenContract):
    """ANSI.flush(): called between the pieces of a stream (spawn's log machinery does write(chunk); flush()) - it must
    not touch the screen, the cursor or the parser, or a sequence cut by a chunk boundary would be lost (C18)."""
    name = ANSICLS + '.flush'
    props = ('C18',)
    changes = ()

    def shape(self, b):
        return dict(self=ansi_shape(b))

    def requires(self, v):
        return inv('inv', v.a.self, v.g)

    def modifies(self, v, out):
        return []

    def base(self, v):
        old, new = v.old.self, v.new.self
        out = inv('inv', new, v.g) + [('C18:fields-unchanged', fields_same(old, new, ()))]
        if not getattr(v, 'concrete', False):
            out.append(('C18:parser-untouched', And(eq(new.state.current_state, old.state.current_state),
                                                    same(new.state.input_symbol, old.state.input_symbol),
                                                    same(new.state.memory, old.state.memory))))
        else:
            out.append(('C18:parser-untouched', new.state.current_state == old.state.current_state and
                        list(new.state._obj.memory) == list(old.state.memory if isinstance(old.state.memory, list) else getattr(old.state.memory, 'items', []))
                        if False else new.state.current_state == old.state.current_state))
        return out


def register(reg):
    for c in ACTIONS + [WriteCh, GetTransition, FsmProcess, AnsiProcess, AnsiWrite, AnsiFlush]:
        reg.add(c)
    reg.add_extern('opaque.__call__', ActionCallback)




