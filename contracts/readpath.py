"""Read paths of the transports against an environment (rely) model (C06, C05, C04; DESIGN.md 5.5).

Ghost state of the peer as the kernel sees it:
  Kos    bytes the peer has written that pexpect has not read yet
  peer   0 running, 1 hung up (descriptor closed, process alive), 2 exited      (monotone)
  rawin  every byte os.read / recv handed to pexpect so far (= "delivered" at the system-call level)
  clk    ghost clock
Between any two external calls an environment step happens: while the peer is running it may append any bytes
to Kos and may advance its state.  A readiness poll is true iff Kos != b'' or the peer is no longer running;
os.read (when ready) takes a non-empty prefix of Kos, or reports EOF iff Kos == b'' and the peer is not running.
"""
from pyvc.types import *
from pyvc.cbase import Contract, LoopSpec, Ret, Raises
from pyvc.spec import *
from .common import *
from .transports import (PTY, FD, POPEN, SOCK, transport_shape, logs_post, init_ghost, _uf, LOGS)

UT = 'pexpect.utils.'


def env_step(v):
    """the peer acts (only while it is running); returns the constraints on the drawn environment choices"""
    g = v.g
    w = v.draw(T.Bytes, 'env.writes')
    adv = v.draw(T.Int, 'env.advance')
    running = eq(g['peer'], 0)
    g['Kos'] = ite(running, cat(g['Kos'], w), g['Kos'])
    old_peer = g['peer']
    g['peer'] = ite(running, adv, old_peer)
    return And(0 <= adv, adv <= 2)


def readable(g):
    return Or(Not(eq(g['Kos'], '')), Not(eq(g['peer'], 0)))


def drained_and_gone(g):
    """the only state in which EOF may be reported: nothing left to read and the peer will write no more"""
    return And(eq(g['Kos'], ''), Not(eq(g['peer'], 0)))


def env_ghost(b):
    b.ghost('Kos', b.str('Kos0', 'b'))
    b.ghost('peer', b.int('peer0'))


def env_requires(v):
    return [('peer-state', And(0 <= v.g['peer'], v.g['peer'] <= 2))]


# ---- assumed: system calls under the environment model ----------------------------------------------------
class SelectSelect(Contract):
    """select.select([fd], [], [], t): blocks at most t; 'ready' iff readable at return; 'not ready' only after t"""
    params = ['r', 'w', 'x', 'timeout']
    defaults = {'timeout': None}

    def requires(self, v):
        t = v.a.timeout
        return [('timeout-not-negative', True if t is None else t >= 0)]

    def outcomes(self, v):
        def ready(interp, pre):
            from pyvc.values import VTuple
            return VTuple([pre.args_v['r'], pre.args_v['w'], pre.args_v['x']])

        def notready(interp, pre):
            from pyvc.values import VTuple, HObj
            e = lambda: interp.ctx.alloc(HObj('list', 'list', {'items': []}, closed=True))
            return VTuple([e(), e(), e()])
        outs = [Ret(T.Any, 'ready', make=ready), Raises('InterruptedError', 'EINTR'), Raises('OSError', 'other')]
        if v.a.timeout is not None:
            outs.insert(1, Ret(T.Any, 'not-ready', make=notready))
        return outs

    def effects(self, v):
        v.envc = env_step(v)
        v.dt = v.draw(T.Real, 'dt')
        v.g['clk'] = v.g['clk'] + v.dt
        if v.raised is not None:
            import errno
            from pyvc.values import VTuple, VInt
            h = v.ctx.heap[v.exc.oid]
            if v.label == 'EINTR':
                h.fields['args'] = VTuple([VInt(errno.EINTR)])
            else:
                other = v.ctx.fresh(T.Int, 'errno')
                v.ctx.assume(other.t != errno.EINTR)
                h.fields['args'] = VTuple([other])

    def ensures(self, v):
        t = v.old.timeout
        out = [('env', v.envc), ('time-forward', v.dt >= 0)]
        if t is not None:
            out.append(('bounded', v.dt <= t))
        if v.label == 'ready':
            out.append(('readable', readable(v.g)))
        if v.label == 'not-ready':
            out += [('waited-the-whole-timeout', eq(v.dt, t)), ('nothing-to-read', Not(readable(v.g)))]
        return out


class PollPoll(SelectSelect):
    """poller.poll(ms)"""
    params = ['self', 'timeout_ms']
    defaults = {'timeout_ms': None}

    def requires(self, v):
        return []

    def outcomes(self, v):
        def ready(interp, pre):
            from pyvc.values import VTuple, HObj, VAny
            fd = interp.ctx.heap[pre.args_v['self'].oid].fields['fds'][0]
            pair = VTuple([fd, interp.ctx.fresh(T.Int, 'revents')])
            return interp.ctx.alloc(HObj('list', 'list', {'items': [pair]}, closed=True))

        def notready(interp, pre):
            from pyvc.values import HObj
            return interp.ctx.alloc(HObj('list', 'list', {'items': []}, closed=True))
        outs = [Ret(T.Any, 'ready', make=ready), Raises('InterruptedError', 'EINTR'), Raises('OSError', 'other')]
        if v.a.timeout_ms is not None:
            outs.insert(1, Ret(T.Any, 'not-ready', make=notready))
        return outs

    def ensures(self, v):
        ms = v.old.timeout_ms
        out = [('env', v.envc), ('time-forward', v.dt >= 0)]
        if ms is not None:
            out.append(('bounded', v.dt * 1000 <= smax(ms, 0)))
        if v.label == 'ready':
            out.append(('readable', readable(v.g)))
        if v.label == 'not-ready':
            out += [('waited-the-whole-timeout', v.dt * 1000 >= ms), ('nothing-to-read', Not(readable(v.g)))]
        return out


class SelectPollNew(Contract):
    params = []

    def outcomes(self, v):
        def mk(interp, pre):
            from pyvc.values import HObj
            return interp.ctx.alloc(HObj('iface:poller', 'obj', {'fds': []}, closed=False))
        return [Ret(T.Any, make=mk)]


class PollRegister(Contract):
    params = ['self', 'fd', 'mask']

    def effects(self, v):
        h = v.ctx.heap[v.args_v['self'].oid]
        h.fields['fds'] = list(h.fields['fds']) + [v.args_v['fd']]


class SysExcInfo(Contract):
    """sys.exc_info() inside an except block: (type, the exception being handled, traceback)"""
    params = []

    def outcomes(self, v):
        def mk(interp, pre):
            from pyvc.values import VTuple, VAny
            from pyvc.spec import Val
            cur = getattr(interp, '_handling', None)
            return VTuple([VAny(interp.ctx._const('exctype', Val)), cur, VAny(interp.ctx._const('tb', Val))])
        return [Ret(T.Any, make=mk)]


# ---- the EINTR-ignoring wrappers ---------------------------------------------------------------------------------
class WaitLoop(LoopSpec):
    """retry after EINTR with the remaining time: timeout is None or exactly end_time - clk (clock reads are free)"""
    def vars(self, v):
        return {'timeout': T.Real} if v.l.timeout is not None else {}

    def ghost(self, v):
        return {'clk': T.Real, 'Kos': T.Bytes, 'peer': T.Int}

    def invariant(self, v):
        out = [('clock-forward', v.g['clk'] >= v.g0['clk']), ('peer-state', And(0 <= v.g['peer'], v.g['peer'] <= 2)),
               ('peer-monotone', v.g['peer'] >= v.g0['peer'])]
        if v.old.timeout is not None:
            out.append(('remaining-time', And(eq(v.l.end_time, v.g0['clk'] + v.old.timeout),
                                              eq(v.l.timeout, v.l.end_time - v.g['clk']), v.l.timeout >= 0)))
        return out


def wait_post(v, ready):
    """C05 for the readiness wrappers: overall bound, never 'not ready' before the timeout has elapsed"""
    t = v.old.timeout
    dt = v.g['clk'] - v.g0['clk'] if getattr(v, 'dt', None) is None else v.dt
    out = [('C05:time-forward', dt >= 0), ('peer-state', And(0 <= v.g['peer'], v.g['peer'] <= 2))]
    if t is not None:
        out.append(('C05:overall-bound-despite-interrupts', dt <= t))
    if ready is True:
        out.append(('C06:ready-means-readable', readable(v.g)))
    elif ready is False:
        out.append(('C05:not-ready-only-after-the-timeout', False if t is None else dt >= t))
    return out


class SelectIgnoreInterrupts(Contract):
    name = UT + 'select_ignore_interrupts'
    props = ('C05', 'C06')
    loops = {0: WaitLoop()}
    standin = False

    def shape(self, b):
        env_ghost(b)
        b.ghost('clk', b.real('clk0'))
        fd = b.int('fd')
        return dict(iwtd=b.list([fd]), owtd=b.list([]), ewtd=b.list([]), timeout=b.opt('timeout', lambda: b.real('timeout')))

    def requires(self, v):
        t = v.a.timeout
        return env_requires(v) + [('timeout-not-negative', True if t is None else t >= 0)]

    def outcomes(self, v):
        def ready(interp, pre):
            from pyvc.values import VTuple
            return VTuple([pre.args_v['iwtd'], pre.args_v['owtd'], pre.args_v['ewtd']])

        def notready(interp, pre):
            from pyvc.values import VTuple, HObj
            e = lambda: interp.ctx.alloc(HObj('list', 'list', {'items': []}, closed=True))
            return VTuple([e(), e(), e()])
        outs = [Ret(T.Any, 'ready', make=ready), Raises('OSError', 'other')]
        if v.a.timeout is not None:
            outs.insert(1, Ret(T.Any, 'not-ready', make=notready))
        return outs

    def exits(self, v):
        return ('OSError', 'InterruptedError')

    def effects(self, v):
        v.envc = env_step(v)
        v.dt = v.draw(T.Real, 'dt')
        v.g['clk'] = v.g['clk'] + v.dt

    def ensures(self, v):
        if v.raised is not None:
            if getattr(v, 'envc', None) is not None:
                return [('env', v.envc), ('time-forward', v.dt >= 0)]
            return [('C05:time-forward', v.g['clk'] >= v.g0['clk'])]
        if getattr(v, 'label', None) is not None:
            ready = v.label == 'ready'
            return [('env', v.envc)] + wait_post(v, ready) + ([('nothing-to-read', Not(readable(v.g)))] if not ready else [])
        rl = v.result[0]
        ready = rl.len > 0
        return wait_post(v, ready)


class PollIgnoreInterrupts(SelectIgnoreInterrupts):
    name = UT + 'poll_ignore_interrupts'
    loops = {1: WaitLoop()}          # loop 0 registers the descriptors (a concrete list, unrolled)

    def shape(self, b):
        env_ghost(b)
        b.ghost('clk', b.real('clk0'))
        fd = b.int('fd')
        return dict(fds=b.list([fd]), timeout=b.opt('timeout', lambda: b.real('timeout')))

    def outcomes(self, v):
        def ready(interp, pre):
            return pre.args_v['fds']

        def notready(interp, pre):
            from pyvc.values import HObj
            return interp.ctx.alloc(HObj('list', 'list', {'items': []}, closed=True))
        outs = [Ret(T.Any, 'ready', make=ready), Raises('OSError', 'other')]
        if v.a.timeout is not None:
            outs.insert(1, Ret(T.Any, 'not-ready', make=notready))
        return outs

    def ensures(self, v):
        if v.raised is not None:
            if getattr(v, 'envc', None) is not None:
                return [('env', v.envc), ('time-forward', v.dt >= 0)]
            return [('C05:time-forward', v.g['clk'] >= v.g0['clk'])]
        if getattr(v, 'label', None) is not None:
            ready = v.label == 'ready'
            return [('env', v.envc)] + wait_post(v, ready) + ([('nothing-to-read', Not(readable(v.g)))] if not ready else [])
        ready = v.result.len > 0
        return wait_post(v, ready)


# ---- reading from the descriptor -------------------------------------------------------------------------------
def kernel_read(v, n, kind):
    """ghost effect of one read system call after an environment step; returns (chunk, constraints)"""
    c = env_step(v)
    g = v.g
    K = g['Kos']
    if kind == 'data':
        p = v.draw(T.Bytes, 'chunk')
        rest = v.draw(T.Bytes, 'rest')
        g['rawin'] = cat(g['rawin'], p)
        g['Kos'] = rest
        return p, And(c, eq(K, cat(p, rest)), length(p) >= 1, length(p) <= n)
    return None, And(c, eq(K, ''), Not(eq(g['peer'], 0)))


class OsReadEnv(Contract):
    """os.read(fd, n) under the environment model (called on a descriptor that polled ready, or blocking)"""
    params = ['fd', 'n']

    def outcomes(self, v):
        return [Ret(T.Bytes, 'data'), Ret(T.Bytes, 'empty'), Raises('OSError', 'EIO'), Raises('OSError', 'other')]

    def effects(self, v):
        v.cons = True
        if v.label == 'data':
            v.chunk, v.cons = kernel_read(v, v.old.n, 'data')
        elif v.label in ('empty', 'EIO'):
            _, v.cons = kernel_read(v, v.old.n, 'eof')
        if v.raised is not None:
            import errno
            from pyvc.values import VTuple, VInt
            h = v.ctx.heap[v.exc.oid]
            if v.label == 'EIO':
                h.fields['args'] = VTuple([VInt(errno.EIO)])
            else:
                other = v.ctx.fresh(T.Int, 'errno')
                v.ctx.assume(other.t != errno.EIO)
                h.fields['args'] = VTuple([other])

    def ensures(self, v):
        out = [('kernel', v.cons)]
        if v.label == 'data':
            out.append(('chunk', eq(v.result, v.chunk)))
        if v.label == 'empty':
            out.append(('empty', eq(v.result, '')))
        return out


def delivered(v):
    """bytes taken from the kernel during this call"""
    return sub(v.g['rawin'], length(v.g0['rawin']), length(v.g['rawin']))


def text_delivered(v, sp):
    """what the call must return: the bytes taken (bytes mode) / what the instance decoder made of them"""
    if sp.encoding is None:
        return delivered(v)
    return sub(v.g['dec_out'], length(v.g0['dec_out']), length(v.g['dec_out']))


def read_common_post(v, sp, new_flag_eof=None):
    """C06 (and C07/C11) for one read call of any transport"""
    out = [('peer-state', And(0 <= v.g['peer'], v.g['peer'] <= 2)),
           ('took-in-order', prefix_of(v.g0['rawin'], v.g['rawin']))]
    if v.raised is None:
        out += [('C06:returns-exactly-what-it-took-from-the-peer', eq(v.result, text_delivered(v, sp))),
                ('C06:at-most-size', length(v.result) <= v.old.size)]
        if sp.encoding is not None:
            out.append(('C07:everything-taken-went-through-the-decoder-in-order',
                        eq(sub(v.g['dec_in'], length(v.g0['dec_in']), length(v.g['dec_in'])), delivered(v))))
        out += logs_post(v, sp, 'read', v.result)
    elif v.raised == 'EOF':
        out += [('C06+C07:eof-only-after-everything-was-delivered', drained_and_gone(v.g)),
                ('C06:nothing-taken-and-dropped', eq(v.g['rawin'], v.g0['rawin']))]
    elif v.raised == 'TIMEOUT':
        out += [('C06:timeout-takes-nothing', eq(v.g['rawin'], v.g0['rawin']))]
    return out


def read_shape(b, cls, extra=None):
    sp, kind = transport_shape(b, cls, logs=('logfile', 'logfile_read'))
    env_ghost(b)
    return sp, kind


class FdReadBase(Contract):
    """SpawnBase.read_nonblocking(size) as executed for fd-like transports (one read system call)"""
    name = SPAWNBASE + '.read_nonblocking'
    receiver = (FD, PTY, 'env')
    props = ('C06', 'C07', 'C11')
    standin = False

    def shape(self, b):
        sp, kind = read_shape(b, FD)
        return dict(self=sp, size=b.int('size'), timeout=b.none())

    def requires(self, v):
        return env_requires(v) + [('size-positive', v.a.size >= 1)]

    def outcomes(self, v):
        k = 'b' if v.old.self.encoding is None else 's'
        return [Ret(TStr(k), 'data'), Raises('EOF'), Raises('OSError', 'error')]

    def exits(self, v):
        return ('EOF', 'OSError')

    def modifies(self, v, out):
        sp = v.old.self
        if out.label == 'EOF':
            return [(sp.ptyproc, 'flag_eof', T.Bool)] if sp._cls == PTY else [(sp, 'flag_eof', T.Bool)]
        return []

    def effects(self, v):
        sp = v.old.self
        v.cons = True
        if v.label == 'data':
            p, v.cons = kernel_read(v, v.old.size, 'data')
            if sp.encoding is not None:
                v.g['dec_in'] = cat(v.g['dec_in'], p)
                v.g['dec_out'] = cat(v.g['dec_out'], v.result)
                v.g['ndec'] = v.g['ndec'] + 1
            for f in ('logfile', 'logfile_read'):
                if getattr(sp, f) is not None:
                    v.g['log:' + f] = cat(v.g['log:' + f], v.result)
        elif v.label == 'EOF':
            _, v.cons = kernel_read(v, v.old.size, 'eof')
        else:
            v.cons = env_step(v)

    def ensures(self, v):
        sp = v.old.self
        out = read_common_post(v, sp)
        if v.raised == 'EOF':
            new = v.new.self
            out.append(('C04:eof-remembered', eq(new.ptyproc.flag_eof if sp._cls == PTY else new.flag_eof, True)))
        if getattr(v, 'label', None) is not None:
            out.append(('kernel', v.cons))
            if v.label == 'data' and sp.encoding is not None:
                out.append(('decoded-not-longer', length(v.result) <= length(delivered(v))))
        return out


# ---- pty: spawn.read_nonblocking -------------------------------------------------------------------------------
from .lifecycle import (ptyproc_obj, fate, pty_requires, PINV, STAT, status_mods)


def pty_read_shape(b):
    kind = b.choice('mode', ['b', 's'])
    fate(b)
    p = ptyproc_obj(b)
    f = dict(
        ptyproc=p, encoding=b.none() if kind == 'b' else b.const('utf-8'),
        status=b.sopt('status', lambda: b.int('status')), exitstatus=b.sopt('exitstatus', lambda: b.int('exitstatus')),
        signalstatus=b.sopt('signalstatus', lambda: b.int('signalstatus')), terminated=b.bool('terminated'),
        closed=b.bool('closed'), child_fd=b.int('child_fd'), pid=b.int('pid'),
        delayafterterminate=b.real('delayafterterminate'), delayafterclose=b.real('delayafterclose'),
        delaybeforesend=b.none(), use_poll=b.bool('use_poll'), _spawn__irix_hack=b.const(False),
        timeout=b.opt('self.timeout', lambda: b.real('self.timeout')), linesep=b.const('\n'),
        string_type=b.cls('bytes' if kind == 'b' else 'str'))
    from .transports import log_file
    for lf in LOGS:
        f[lf] = log_file(b, lf, kind) if lf != 'logfile_send' else b.none()
    if kind == 'b':
        f['_encoder'] = f['_decoder'] = b.obj('nullcoder', 'pexpect.spawnbase._NullCoder', sealed=True)
    else:
        f['_encoder'] = b.obj('encoder', 'iface:encoder', sealed=True)
        f['_decoder'] = b.obj('decoder', 'iface:decoder', sealed=True)
    init_ghost(b, kind)
    env_ghost(b)
    return b.obj('self', PTY, sealed=False, **f), kind


class PtyReadLoop(LoopSpec):
    """drain loop: keep reading while something is immediately readable and the caller wants more"""
    def vars(self, v):
        k = 'b' if v.old.self.encoding is None else 's'
        return {'incoming': TStr(k)}

    def ghost(self, v):
        k = 'b' if v.old.self.encoding is None else 's'
        d = {'clk': T.Real, 'Kos': T.Bytes, 'peer': T.Int, 'rawin': T.Bytes, 'dec_in': T.Bytes, 'dec_out': TStr(k),
             'ndec': T.Int}
        for f in ('logfile', 'logfile_read'):
            d['log:' + f] = TStr(k)
        return d

    def invariant(self, v):
        sp = v.old.self
        inc = v.l.incoming
        out = [('peer-state', And(0 <= v.g['peer'], v.g['peer'] <= 2)),
               ('took-in-order', prefix_of(v.g0['rawin'], v.g['rawin'])),
               ('no-time-passes-while-draining', eq(v.g['clk'], v.g0['clk'])),
               ('collected-is-what-was-taken', eq(inc, text_delivered(v, sp))),
               ('never-more-than-asked', length(inc) <= v.old.size),
               ('ptyprocess-invariant', PINV(v.l.self.ptyproc, v.g)), ('status-invariant', STAT(v.l.self, v.g)),
               ('not-terminated-before-ptyprocess', Implies(v.l.self.terminated, v.l.self.ptyproc.terminated))]
        if sp.encoding is not None:
            out += [('decoder-fed-in-order', And(prefix_of(v.g0['dec_in'], v.g['dec_in']), prefix_of(v.g0['dec_out'], v.g['dec_out']),
                                                 eq(sub(v.g['dec_in'], length(v.g0['dec_in']), length(v.g['dec_in'])), delivered(v)))),
                    ('decoded-not-longer', length(inc) <= length(delivered(v)))]
        for f in ('logfile', 'logfile_read'):
            if getattr(sp, f) is not None:
                out.append(('log-so-far.' + f, And(eq(v.g['log:' + f], cat(v.g0['log:' + f], inc)), Not(v.g['unflushed:' + f]))))
            else:
                out.append(('log-untouched.' + f, eq(v.g['log:' + f], v.g0['log:' + f])))
        return out

    def modifies(self, v):
        sp = v.l.self
        return status_mods(sp) + status_mods(sp.ptyproc) + [(sp.ptyproc, 'flag_eof', T.Bool)]


class PtyRead(Contract):
    name = PTY + '.read_nonblocking'
    props = ('C05', 'C06', 'C07', 'C11', 'C10')
    loops = {0: PtyReadLoop()}
    standin = False

    def shape(self, b):
        sp, kind = pty_read_shape(b)
        t = b.choice('timeout', ['default', 'none', 'some'])
        timeout = b.const(-1) if t == 'default' else (b.none() if t == 'none' else b.real('timeout'))
        return dict(self=sp, size=b.int('size'), timeout=timeout)

    def requires(self, v):
        t = v.a.timeout
        out = pty_requires(v) + env_requires(v) + [('size-positive', v.a.size >= 1)]
        if t is not None and not (isinstance(t, int) or (is_sym(t) and str(t.sort()) == 'Int')):
            out.append(('timeout-domain', t >= 0))
        st = v.a.self.timeout
        if st is not None:
            out.append(('instance-timeout-domain', st >= 0))
        return out

    def outcomes(self, v):
        k = 'b' if v.old.self.encoding is None else 's'
        return [Ret(TStr(k), 'data'), Raises('EOF'), Raises('TIMEOUT'), Raises('ExceptionPexpect'), Raises('OSError'),
                Raises('ValueError')]

    def exits(self, v):
        return ('EOF', 'TIMEOUT', 'ExceptionPexpect', 'OSError', 'ValueError')

    def ensures(self, v):
        sp = v.old.self
        out = []
        if v.raised == 'ValueError':
            return [('C10:closed-object-refuses-io', And(sp.closed, eq(v.g['rawin'], v.g0['rawin'])))]
        out.append(('C10:open-object', Not(sp.closed)))
        return out + read_common_post(v, sp) + deadline_post(v, eff_timeout(v))


# ---- fdspawn.read_nonblocking ------------------------------------------------------------------------------------
def timeout_arg(b):
    t = b.choice('timeout', ['default', 'none', 'some'])
    return b.const(-1) if t == 'default' else (b.none() if t == 'none' else b.real('timeout'))


def eff_timeout(v):
    t = v.old.timeout
    if isinstance(t, int) and t == -1:
        return v.old.self.timeout
    if is_sym(t):
        import z3
        z = z3.simplify(t)
        if z3.is_int_value(z) and z.as_long() == -1:
            return v.old.self.timeout
    return t


def deadline_post(v, T0):
    """C05 at the transport: bounded by the timeout, TIMEOUT only after it has elapsed"""
    dt = v.g['clk'] - v.g0['clk']
    out = [('C05:time-forward', dt >= 0)]
    if v.raised == 'TIMEOUT':
        out.append(('C05:timeout-only-with-a-finite-timeout-that-elapsed', False if T0 is None else dt >= T0))
    if T0 is not None and v.raised in (None, 'TIMEOUT'):
        out.append(('C05:bounded-by-the-timeout', dt <= smax(T0, 0)))
    return out


class FdRead(Contract):
    name = FD + '.read_nonblocking'
    props = ('C05', 'C06', 'C07', 'C11')
    standin = False

    def shape(self, b):
        sp, kind = read_shape(b, FD)
        h = b.ctx.heap[sp.oid] if hasattr(b, 'ctx') else None
        if h is not None:
            h.fields['use_poll'] = b.bool('use_poll')
            h.fields['timeout'] = b.opt('self.timeout', lambda: b.real('self.timeout'))
        return dict(self=sp, size=b.int('size'), timeout=timeout_arg(b))

    def requires(self, v):
        t = v.a.timeout
        out = env_requires(v) + [('size-positive', v.a.size >= 1)]
        if t is not None and not (isinstance(t, int) or (is_sym(t) and str(t.sort()) == 'Int')):
            out.append(('timeout-domain', t >= 0))
        if v.a.self.timeout is not None:
            out.append(('instance-timeout-domain', v.a.self.timeout >= 0))
        return out

    def outcomes(self, v):
        k = 'b' if v.old.self.encoding is None else 's'
        return [Ret(TStr(k), 'data'), Raises('EOF'), Raises('TIMEOUT'), Raises('OSError')]

    def exits(self, v):
        return ('EOF', 'TIMEOUT', 'OSError', 'InterruptedError')

    def ensures(self, v):
        return read_common_post(v, v.old.self) + deadline_post(v, eff_timeout(v))


# ---- spawn.waitnoecho ----------------------------------------------------------------------------------------------
class GetEcho(Contract):
    """ptyprocess.getecho(): the terminal ECHO flag right now (a termios query, no waiting)"""
    params = ['self']

    def outcomes(self, v):
        return [Ret(T.Bool)]

    def effects(self, v):
        v.g['echo_checks'] = v.g.get('echo_checks', 0) + 1
        v.g['last_echo'] = v.result


class WaitNoEchoLoop(LoopSpec):
    def vars(self, v):
        return {'timeout': T.Real} if v.l.timeout is not None else {}

    def ghost(self, v):
        return {'clk': T.Real, 'echo_checks': T.Int, 'last_echo': T.Bool}

    def invariant(self, v):
        out = [('clock-forward', v.g['clk'] >= v.g0['clk']), ('checks-counted', v.g['echo_checks'] >= v.g0['echo_checks'])]
        T0 = eff_timeout(v)
        if T0 is not None:      # (end_time is bound exactly when there is a timeout; a missing local makes the contract inapplicable)
            rem = v.l.end_time - v.g['clk']
            out.append(('remaining-time', And(eq(v.l.end_time, v.g0['clk'] + T0), rem <= v.l.timeout, v.l.timeout <= rem + 0.1,
                                              v.g['clk'] - v.g0['clk'] <= smax(T0, 0) + 0.2)))
        return out


class WaitNoEcho(Contract):
    name = PTY + '.waitnoecho'
    props = ('C05',)
    loops = {0: WaitNoEchoLoop()}
    standin = False

    def shape(self, b):
        p = b.obj('ptyproc', 'iface:ptyproc', sealed=False)
        sp = b.obj('self', PTY, sealed=False, ptyproc=p, timeout=b.opt('self.timeout', lambda: b.real('self.timeout')))
        b.ghost('clk', b.real('clk0'))
        b.ghost('echo_checks', 0)
        b.ghost('last_echo', True)
        return dict(self=sp, timeout=timeout_arg(b))

    def requires(self, v):
        t = v.a.timeout
        if t is not None and not (isinstance(t, int) or (is_sym(t) and str(t.sort()) == 'Int')):
            return [('timeout-not-the-sentinel', Not(eq(t, -1)))]
        return []

    def outcomes(self, v):
        return [Ret(T.Bool)]

    def exits(self, v):
        return ()          # in particular timeout=None must not raise

    def ensures(self, v):
        T0 = eff_timeout(v)
        dt = v.g['clk'] - v.g0['clk']
        out = [('C05:true-only-when-echo-was-seen-off', Implies(v.result, Not(v.g['last_echo']))),
               ('C05:looked-at-least-once', v.g['echo_checks'] >= 1)]
        if T0 is None:
            out.append(('C05:none-never-times-out', v.result))
        else:
            out += [('C05:false-only-after-the-timeout', Implies(Not(v.result), dt >= T0)),
                    ('C05:bounded', dt <= smax(T0, 0) + 0.2)]
        return out


# ---- PopenSpawn.read_nonblocking (reader thread -> queue -> here) ----------------------------------------------
class QueueEmpty(Contract):
    """queue.Queue.empty(): a snapshot that may be stale the moment it is returned - either answer"""
    params = ['self']

    def outcomes(self, v):
        return [Ret(T.Bool)]


class QueueGetNowait(Contract):
    """queue.Queue.get_nowait() on the read queue: FIFO; a chunk of what the reader thread has queued, the None
    sentinel once everything before it was taken, or Empty if nothing is queued right now.
    Kos = bytes queued and not yet taken, peer != 0 = the sentinel has been queued behind them."""
    params = ['self']

    def outcomes(self, v):
        return [Ret(T.Bytes, 'chunk'), Ret(T.NoneT, 'sentinel'), Raises('Empty')]

    def effects(self, v):
        if v.label == 'chunk':
            v.chunk, v.cons = kernel_read(v, 1024, 'data')
        elif v.label == 'sentinel':
            _, v.cons = kernel_read(v, 1024, 'eof')
        else:
            c = env_step(v)
            v.cons = And(c, eq(v.g['Kos'], ''), eq(v.g['peer'], 0))
            v.g['empty_seen'] = True

    def ensures(self, v):
        out = [('queue', v.cons)]
        if v.label == 'chunk':
            out.append(('chunk', eq(v.result, v.chunk)))
        return out


def popen_read_shape(b):
    sp, kind = read_shape(b, POPEN)
    if hasattr(b, 'ctx'):
        h = b.ctx.heap[sp.oid]
        h.fields['_buf'] = b.str('_buf', kind)
        h.fields['_read_reached_eof'] = b.bool('_read_reached_eof')
        h.fields['_read_queue'] = b.obj('queue', 'iface:queue', sealed=True)
        h.fields['timeout'] = b.opt('self.timeout', lambda: b.real('self.timeout'))
        h.fields['flag_eof'] = b.bool('flag_eof')
    b.ghost('empty_seen', False)
    return sp, kind


def popen_inv(sp, g):
    """once the sentinel has been read nothing is left anywhere: queue drained, reader gone, carry-over empty"""
    return Implies(sp._read_reached_eof, And(drained_and_gone(g), eq(sp._buf, '')))


class PopenReadLoop(LoopSpec):
    def vars(self, v):
        k = 'b' if v.old.self.encoding is None else 's'
        return {'buf': TStr(k), 'incoming': TOpt(T.Bytes), 'polled': T.Bool}

    def ghost(self, v):
        k = 'b' if v.old.self.encoding is None else 's'
        return {'clk': T.Real, 'Kos': T.Bytes, 'peer': T.Int, 'rawin': T.Bytes, 'dec_in': T.Bytes, 'dec_out': TStr(k),
                'ndec': T.Int, 'empty_seen': T.Bool}

    def modifies(self, v):
        return []

    def invariant(self, v):
        sp = v.old.self
        out = [('peer-state', And(0 <= v.g['peer'], v.g['peer'] <= 2)),
               ('took-in-order', prefix_of(v.g0['rawin'], v.g['rawin'])),
               ('no-time-passes', eq(v.g['clk'], v.g0['clk'])),
               ('collected', eq(v.l.buf, cat(sp._buf, text_delivered(v, sp)))),
               ('sentinel-not-seen-yet', And(Not(v.l.self._read_reached_eof), Not(sp._read_reached_eof)))]
        out.append(('polled-means-the-queue-was-looked-at', Implies(v.l.polled, length(v.g['rawin']) > length(v.g0['rawin']))))
        if sp.encoding is not None:
            out += [('decoder-fed-in-order', And(prefix_of(v.g0['dec_in'], v.g['dec_in']), prefix_of(v.g0['dec_out'], v.g['dec_out']),
                                                 eq(sub(v.g['dec_in'], length(v.g0['dec_in']), length(v.g['dec_in'])), delivered(v))))]
        return out


class PopenRead(Contract):
    name = POPEN + '.read_nonblocking'
    props = ('C05', 'C06', 'C07', 'C11')
    loops = {0: PopenReadLoop()}
    standin = False

    def shape(self, b):
        sp, kind = popen_read_shape(b)
        return dict(self=sp, size=b.int('size'), timeout=timeout_arg(b))

    def requires(self, v):
        sp = v.a.self
        t = v.a.timeout
        out = env_requires(v) + [('size-positive', v.a.size >= 1), ('class-invariant', popen_inv(sp, v.g))]
        if t is not None and not (isinstance(t, int) or (is_sym(t) and str(t.sort()) == 'Int')):
            out.append(('timeout-domain', t >= 0))
        if sp.timeout is not None:
            out.append(('instance-timeout-domain', sp.timeout >= 0))
        return out

    def outcomes(self, v):
        k = 'b' if v.old.self.encoding is None else 's'
        return [Ret(TStr(k), 'data'), Raises('EOF')]

    def exits(self, v):
        return ('EOF',)

    def ensures(self, v):
        sp, new = v.old.self, v.new.self
        out = [('class-invariant', popen_inv(new, v.g)), ('peer-state', And(0 <= v.g['peer'], v.g['peer'] <= 2)),
               ('C05:never-blocks', eq(v.g['clk'], v.g0['clk']))]
        if v.raised == 'EOF':
            return out + [('C06+C07:eof-only-after-everything-was-delivered', And(drained_and_gone(v.g), eq(sp._buf, ''))),
                          ('C06:nothing-taken-and-dropped', eq(v.g['rawin'], v.g0['rawin'])),
                          ('C04:eof-remembered', eq(new.flag_eof, True))]
        out += [
            # C06: what is returned plus what is carried over is exactly the carry-over plus what was taken
            ('C06:nothing-lost-or-duplicated', eq(cat(v.result, new._buf), cat(sp._buf, text_delivered(v, sp)))),
            ('C06:at-most-size', length(v.result) <= v.old.size),
            # C05: timeout=0 (or any timeout) still looks at what is immediately readable
            ('C05:empty-only-when-nothing-was-readable',
             Implies(eq(v.result, ''), Or(v.g['empty_seen'], new._read_reached_eof, length(v.g['rawin']) > length(v.g0['rawin'])))),
        ]
        if sp.encoding is not None:
            out.append(('C07:everything-taken-went-through-the-decoder-in-order',
                        eq(sub(v.g['dec_in'], length(v.g0['dec_in']), length(v.g['dec_in'])), delivered(v))))
        return out + logs_post(v, sp, 'read', v.result)


# ---- SocketSpawn.read_nonblocking ------------------------------------------------------------------------------------
class SockGetTimeout(Contract):
    params = ['self']

    def outcomes(self, v):
        def mk(interp, pre):
            from pyvc.values import VOpt, VReal, VNone
            g = pre.g['sock_timeout']
            if g is None:
                return VNone()
            return VReal(g)
        return [Ret(T.Any, make=mk)]


class SockSetTimeout(Contract):
    params = ['self', 't']

    def effects(self, v):
        v.g['sock_timeout'] = v.old.t
        v.g['settimeouts'] = v.g.get('settimeouts', 0) + 1


class SockRecv(Contract):
    """socket.recv(n) under the socket's current timeout t: data; b'' at EOF; socket.timeout after t > 0;
    BlockingIOError at once when t == 0 and nothing is ready"""
    params = ['self', 'n']

    def outcomes(self, v):
        t = v.g['sock_timeout']
        outs = [Ret(T.Bytes, 'data'), Ret(T.Bytes, 'empty'), Raises('OSError', 'other')]
        if t is not None:
            outs += [Raises('socket.timeout', 'timeout'), Raises('BlockingIOError', 'would-block')]
        return outs

    def effects(self, v):
        t = v.g['sock_timeout']
        v.dt = v.draw(T.Real, 'dt')
        v.g['clk'] = v.g['clk'] + v.dt
        v.cons = True
        if v.label == 'data':
            v.chunk, v.cons = kernel_read(v, v.old.n, 'data')
        elif v.label == 'empty':
            _, v.cons = kernel_read(v, v.old.n, 'eof')
        else:
            v.cons = env_step(v)

    def ensures(self, v):
        t = v.g0['sock_timeout']
        out = [('kernel', v.cons), ('time-forward', v.dt >= 0)]
        if t is not None:
            out.append(('bounded', v.dt <= smax(t, 0)))
        if v.label == 'data':
            out.append(('chunk', eq(v.result, v.chunk)))
        if v.label == 'empty':
            out.append(('empty', eq(v.result, '')))
        if v.label == 'timeout':
            out.append(('timed-out', And(t > 0, v.dt >= t, Not(readable(v.g)))))
        if v.label == 'would-block':
            out.append(('would-block', And(eq(t, 0), eq(v.dt, 0), Not(readable(v.g)))))
        return out


def sock_read_shape(b):
    sp, kind = read_shape(b, SOCK)
    if hasattr(b, 'ctx'):
        h = b.ctx.heap[sp.oid]
        h.fields['timeout'] = b.opt('self.timeout', lambda: b.real('self.timeout'))
        h.fields['flag_eof'] = b.bool('flag_eof')
    st = b.choice('socket-own-timeout', ['blocking', 'timed'])
    b.ghost('sock_timeout', None if st == 'blocking' else (b.real('sock_timeout0').t if hasattr(b, 'ctx') else 1.0))
    b.ghost('settimeouts', 0)
    return sp, kind


class SockRead(Contract):
    name = SOCK + '.read_nonblocking'
    props = ('C04', 'C05', 'C06', 'C07', 'C11')
    standin = False

    def shape(self, b):
        sp, kind = sock_read_shape(b)
        return dict(self=sp, size=b.int('size'), timeout=timeout_arg(b))

    def requires(self, v):
        t = v.a.timeout
        out = env_requires(v) + [('size-positive', v.a.size >= 1)]
        if t is not None and not (isinstance(t, int) or (is_sym(t) and str(t.sort()) == 'Int')):
            out.append(('timeout-domain', t >= 0))
        if v.a.self.timeout is not None:
            out.append(('instance-timeout-domain', v.a.self.timeout >= 0))
        return out

    def outcomes(self, v):
        k = 'b' if v.old.self.encoding is None else 's'
        return [Ret(TStr(k), 'data'), Raises('EOF'), Raises('TIMEOUT'), Raises('OSError')]

    def exits(self, v):
        # C04: "never some other error": only EOF, TIMEOUT, or a genuine I/O error of the socket
        return ('EOF', 'TIMEOUT', 'OSError')

    def ensures(self, v):
        sp = v.old.self
        out = [('C06:socket-timeout-left-as-found', eq(v.g['sock_timeout'], v.g0['sock_timeout']))]
        if v.raised == 'OSError':
            return out
        return out + read_common_post(v, sp) + deadline_post(v, eff_timeout(v))


def register(reg):
    reg.add_extern('select.select', SelectSelect)
    reg.add_extern('select.poll', SelectPollNew)
    reg.add_iface('iface:poller', 'poll', PollPoll)
    reg.add_iface('iface:poller', 'register', PollRegister)
    reg.add_extern('sys.exc_info', SysExcInfo)
    reg.add(SelectIgnoreInterrupts)
    reg.add(PollIgnoreInterrupts)
    reg.add(FdReadBase)
    reg.add(PtyRead)
    reg.add(FdRead)
    reg.add(WaitNoEcho)
    reg.add(PopenRead)
    reg.add(SockRead)
    reg.add_iface('iface:socket', 'gettimeout', SockGetTimeout)
    reg.add_iface('iface:socket', 'settimeout', SockSetTimeout)
    reg.add_iface('iface:socket', 'recv', SockRecv)
    reg.add_iface('iface:queue', 'get_nowait', QueueGetNowait)
    reg.add_iface('iface:queue', 'empty', QueueEmpty)
    reg.add_iface('iface:ptyproc', 'getecho', GetEcho)
    reg.add_extern('os.read', OsReadEnv)












