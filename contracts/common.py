"""Shared shapes and specification predicates (DESIGN.md section 5)."""
from pyvc.types import *
from pyvc.cbase import Contract, LoopSpec, Ret, Raises
from pyvc.spec import *
from pyvc import spec as S

SPAWNBASE = 'pexpect.spawnbase.SpawnBase'



def io_kind(view):
    return 'b' if view._cls == 'io.BytesIO' else 's'


def content(io):
    return io.content


def INV_buf(sp):
    """pos == len for both buffers, the search buffer is a suffix of the pending text, and the two are separate
    buffer objects (a write to one must not show up in the other)."""
    return And(eq(sp._before.pos, length(sp._before.content)),
               eq(sp._buffer.pos, length(sp._buffer.content)),
               suffix_of(sp._buffer.content, sp._before.content),
               sp._buffer._oid != sp._before._oid)


def spawn_shape(b, name='spawn', cls=SPAWNBASE, extra=None, loop=False, defaults=False):
    """The part of a spawn object that the matching machinery reads or writes."""
    kind = b.choice('mode', ['b', 's'])
    fields = dict(
        _before=b.io('pend', kind),
        _buffer=b.io('sbuf', kind),
        buffer_type=b.cls('BytesIO' if kind == 'b' else 'StringIO'),
        string_type=b.cls('bytes' if kind == 'b' else 'str'),
        before=b.any('before0'), after=b.any('after0'), match=b.any('match0'), match_index=b.any('match_index0'),
    )
    if loop:
        fields.update(flag_eof=b.bool('flag_eof'),       # set by the transports once end of file was seen
                      maxread=b.int('maxread'),
                      delayafterread=b.opt('delayafterread', lambda: b.real('delayafterread')))
    if defaults:
        fields.update(searchwindowsize=b.opt('spawn.searchwindowsize', lambda: b.int('spawn.searchwindowsize')),
                      timeout=b.opt('spawn.timeout', lambda: b.real('spawn.timeout')))
    if extra:
        fields.update(extra(b, kind))
    return b.obj(name, cls, sealed=False, **fields), kind


def searcher_shape(b, lookback=False):
    """An object satisfying the searcher interface (searcher_string / searcher_re refine it)."""
    fields = dict(eof_index=b.int('eof_index'), timeout_index=b.int('timeout_index'),
                  start=b.any('start0'), end=b.any('end0'), match=b.any('smatch0'))
    if lookback and b.choice('searcher.longest_string?', ['absent', 'present']) == 'present':
        fields['longest_string'] = b.int('longest_string')
    return b.obj('searcher', 'iface:searcher', sealed=True, **fields)
