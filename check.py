#!/usr/bin/env python3-vt
"""check.py <property id> [--tier quick|thorough] [--replay FILE]

Decides one property by contract-based deductive verification of the real code in
$VERIF_REPO (default /repo):  VCs are generated from the current source on every run and
discharged by the z3/cvc5 portfolio.  Exit codes: 0 held / 1 violation (replayed input or a
named obligation with no-failing-input-found) / 3 checker fault.  Undecided obligations never
become violations (DESIGN.md 3.2).
"""
import argparse, json, os, sys, time, subprocess, collections, hashlib, random

HERE = os.path.dirname(os.path.abspath(__file__))
sys.path.insert(0, HERE)
REPO = os.environ.get('VERIF_REPO', '/repo')
PYRUN = os.environ.get('VERIF_PYTHON', '/venv/bin/python')


def harness(req, timeout=600):
    env = dict(os.environ)
    env['VERIF_REPO'] = REPO
    env['PYTHONPATH'] = REPO + os.pathsep + env.get('PYTHONPATH', '')
    # the real code runs in a scratch directory of its own (pexpect.ANSI.DoLog appends to a file called 'log' in the
    # current directory); it is removed as soon as the run is over
    import tempfile, shutil
    scratch = tempfile.mkdtemp(prefix='verif-run-')
    env['PYTHONPATH'] = HERE + os.pathsep + env['PYTHONPATH']
    try:
        p = subprocess.run([PYRUN, os.path.join(HERE, 'harness', 'run_concrete.py')], input=json.dumps(req),
                           capture_output=True, text=True, timeout=timeout, env=env, cwd=scratch)
    finally:
        shutil.rmtree(scratch, ignore_errors=True)
    if p.returncode != 0:
        return {'status': 'harness-error', 'stderr': p.stderr[-2000:]}
    try:
        return json.loads(p.stdout)
    except ValueError:
        return {'status': 'harness-error', 'stderr': (p.stdout + p.stderr)[-2000:]}


def load_known():
    path = os.path.join(HERE, 'known_findings.json')
    if not os.path.exists(path):
        return []
    return json.load(open(path))['findings']


def clause_of(ob_id):
    """'post.hit.conserve' -> 'hit.conserve';  'loop0.inv-step.x' stays."""
    return ob_id[5:] if ob_id.startswith('post.') else ob_id


def main():
    ap = argparse.ArgumentParser()
    ap.add_argument('prop')
    ap.add_argument('--tier', default=os.environ.get('VERIF_TIER', 'quick'))
    ap.add_argument('--replay')
    ap.add_argument('--procs', type=int, default=16)
    ap.add_argument('--verbose', action='store_true')
    ap.add_argument('--write-baseline', action='store_true', help='record the obligations proved on the current tree')
    args = ap.parse_args()
    seed = int(os.environ.get('VERIF_SEED', '0'))

    if args.replay:
        return do_replay(args.replay)

    from contracts.props import PROPS
    if args.prop not in PROPS:
        print('unknown property', args.prop)
        return 3
    P = PROPS[args.prop]
    t0 = time.time()
    os.makedirs(os.path.join(HERE, 'evidence'), exist_ok=True)
    os.makedirs(os.path.join(HERE, 'replays'), exist_ok=True)

    from pyvc.verify import verify_contracts, _init
    # canary: the solver portfolio must refute a false string obligation (with a model) and prove a true one, through
    # the same discharge() the obligations go through; otherwise nothing this run reports can be believed
    import z3 as _z3
    from pyvc import solver as _SV
    _a, _b = _z3.Strings('canary_a canary_b')
    _bad = _SV.discharge([_z3.Length(_a) >= 1], _z3.SubString(_z3.Concat(_a, _b), 0, _z3.Length(_a) - 1) == _a, 10.0)
    _good = _SV.discharge([_z3.Length(_a) >= 1], _z3.SubString(_z3.Concat(_a, _b), 0, _z3.Length(_a)) == _a, 10.0)
    if _bad.status != 'refuted' or _bad.model is None or _good.status != 'proved':
        print('CHECKER-FAULT: canary obligations came back %s / %s' % (_bad.status, _good.status))
        return 3
    budget = 10.0 if args.tier == 'quick' else 60.0
    known = [k for k in load_known() if k['property'] == args.prop]
    try:
        prog, reg = _init()
        results = verify_contracts(P['contracts'], budget=budget, procs=args.procs, want_smt=(args.tier == 'thorough'), known=known)
    except Exception as e:
        import traceback
        traceback.print_exc()
        print('CHECKER-FAULT: %s' % e)
        return 3

    prop = args.prop
    tagged = lambda oid: obligation_belongs(oid, prop, P)
    obligations = discharged = 0
    by_backend = collections.Counter()
    solver_s = 0.0
    functions = {}
    trusted = set()
    undecided, refuted, unsupported, errors, knownhits = [], [], [], [], []
    samples = []
    paths = 0
    for r in results:
        if r['error']:
            errors.append((r['contract'], r['case'], r['error']))
            continue
        paths += r['paths']
        if r.get('source'):
            functions[r['contract']] = r['source']
        trusted |= set(r['trusted'])
        for u in r['unsupported']:
            unsupported.append((r['contract'], r['case'], u))
        for o in r['obligations']:
            if not tagged(o['id']):
                continue
            if o['status'] == 'known-finding':
                knownhits.append((r, o))
                continue
            obligations += 1
            solver_s += o['seconds']
            if o['status'] == 'proved':
                discharged += 1
                by_backend[o['backend']] += 1
                if len(samples) < 4 and o['backend'] != 'z3api-incremental' and o.get('smt2'):
                    samples.append({'obligation': '%s/%s.%s' % (prop, r['contract'].split('.')[-1], o['id']),
                                    'case': r['case'], 'verdict': 'unsat (%s, %.2fs)' % (o['backend'], o['seconds']),
                                    'smt2_head': o['smt2'][:600]})
            elif o['status'] == 'refuted':
                refuted.append((r, o))
            else:
                undecided.append((r, o))
    if errors:
        for e in errors:
            print('CHECKER-FAULT in %s %s: %s' % e)
        return 3

    violations = []
    replay_log = []
    extra_notes = {}
    if P.get('extra'):
        import importlib
        ex = importlib.import_module(P['extra']).run(args.tier, REPO, HERE, PYRUN)
        if ex.get('fault'):
            print('CHECKER-FAULT: ' + ex['fault'])
            return 3
        obligations += ex['obligations']
        discharged += ex['discharged']
        if ex.get('by_backend'):
            for be_, n_ in ex['by_backend'].items():
                by_backend[be_] += n_
        else:
            by_backend['table-analysis/lean'] += ex['discharged']
        for u_ in ex.get('undecided', []):
            undecided.append(({'contract': 'lemma', 'case': {}, 'receiver': None}, {'id': u_, 'status': 'undecided', 'tried': [], 'seconds': 0}))
        trusted |= set(ex['trusted'])
        extra_notes = ex['notes']
        for v in ex['violations']:
            violations.append(v)
    # ---- refuted candidates: replay the counter-model on the real code ----------------------
    seen = set()
    confirmed_keys = set()
    for r, o in refuted:
        key = (r['contract'], clause_of(o['id']))
        if key in confirmed_keys:
            continue
        if getattr(reg.contract_for(r['contract'], r.get('receiver')), 'standin', True) is False:
            continue        # no concrete environment for this function: the obligation itself is the report
        req = {'mode': 'replay', 'contract': r['contract'], 'receiver': r.get('receiver'), 'case': r['case'],
               'model': o.get('model', {}), 'extra': o.get('model_extra', {}), 'tags': o.get('tags', []),
               'clauses': None}
        res = harness(req)
        replay_log.append({'obligation': o['id'], 'contract': r['contract'], 'replay': res.get('status'),
                           'failed': res.get('failed')})
        if res.get('status') == 'fail':
            confirmed_keys.add(key)
            violations.append({'contract': r['contract'], 'obligation': o['id'], 'case': r['case'], 'model': o.get('model'),
                               'model_extra': o.get('model_extra'), 'tags': o.get('tags'), 'replay': res,
                               'solver': o['tried'], 'kind': 'replayed-counterexample', 'request': req})
    # ---- not confirmed / undecided: bounded native search of the same contract ---------------
    open_keys = collections.OrderedDict()
    for r, o in refuted + undecided:
        key = (r['contract'], clause_of(o['id']))
        if key in confirmed_keys:
            continue
        open_keys.setdefault((r['contract'], r.get('receiver')), []).append((r, o))
    for c, cs, u in unsupported:
        # a construct outside the subset: the bounded stand-in decides this function on this run
        rcv = [r.get('receiver') for r in results if r['contract'] == c][:1]
        open_keys.setdefault((c, rcv[0] if rcv else None), [])
    bounded_info = {}
    for (cname, recv), items in open_keys.items():
        con_ = reg.contract_for(cname, recv)
        if getattr(con_, 'standin', True) is False:
            bounded_info[cname] = {'status': 'no bounded stand-in for this function (its environment cannot be built concretely)'}
            continue
        bd = P.get('bounds', {}).get(cname, P.get('bounds', {}).get('*', {}))
        req = {'mode': 'enum', 'contract': cname, 'receiver': recv, 'bounds': bd, 'limit': 30000 if args.tier == 'quick' else 400000,
               'random': 40000 if args.tier == 'quick' else 400000, 'seed': seed}
        res = harness(req, timeout=900)
        bounded_info[cname] = {k: res.get(k) for k in ('evaluations', 'in_domain', 'exhaustive', 'bounds', 'status')}
        if res.get('status') == 'harness-error':
            print('NOTE: bounded stand-in for %s could not run: %s' % (cname, (res.get('stderr') or '')[-300:].replace('\n', ' | ')))
        fails = [f for f in (res.get('failures') or []) if any(tagged('post.' + c) for c in f.get('failed', []))]
        if fails:
            f = fails[0]
            f['failed'] = [c for c in f['failed'] if tagged('post.' + c)]
            violations.append({'contract': cname, 'obligation': 'post.' + f['failed'][0], 'case': None, 'replay': f,
                               'kind': 'bounded-search-counterexample', 'solver': [x[1]['tried'] for x in items][:3]})
            confirmed_keys.add((cname, f['failed'][0]))
    # ---- thorough tier: (1) the same contracts evaluated natively on the real functions over a bounded input space
    #      (a CPython cross-check of contracts, models and engine; labelled bounded, never counted as proved);
    #      (2) a sample of solver-discharged obligations re-asked of every back end: any 'sat' is a checker fault
    thorough_notes = {}
    if args.tier == 'thorough':
        xc = {}
        for cn in P['contracts']:
            cname, recv = (cn if isinstance(cn, tuple) else (cn, None))
            key_ = '%s%s' % (cname, '@' + recv if recv else '')
            if (cname, recv) in open_keys or key_ in xc:
                continue
            con_ = reg.contract_for(cname, recv)
            if getattr(con_, 'standin', True) is False:
                continue
            bd = P.get('bounds', {}).get(cname, P.get('bounds', {}).get('*', {}))
            res = harness({'mode': 'enum', 'contract': cname, 'receiver': recv, 'bounds': bd, 'limit': 20000, 'random': 30000, 'seed': seed}, timeout=900)
            xc[key_] = {k: res.get(k) for k in ('evaluations', 'in_domain', 'status')}
            fails = [f for f in (res.get('failures') or []) if any(tagged('post.' + c) for c in f.get('failed', []))]
            if fails:
                f = fails[0]
                f['failed'] = [c for c in f['failed'] if tagged('post.' + c)]
                violations.append({'contract': cname, 'obligation': 'post.' + f['failed'][0], 'case': None, 'replay': f,
                                   'kind': 'bounded-search-counterexample', 'solver': []})
                confirmed_keys.add((cname, f['failed'][0]))
        thorough_notes['native_cross_check'] = {'label': 'bounded (not counted as proved)', 'per_contract': xc}
        import pyvc.solver as SV_
        sample = [o for r in results for o in r['obligations'] if o.get('smt2') and o['status'] == 'proved'][:48]
        agree = {'asked': 0, 'unsat': 0, 'unknown': 0, 'sat': 0}
        for o in sample:
            for cmd, text in (([SV_.CVC5, '--strings-exp', '--tlimit=20000'], '(set-logic ALL)\n' + o['smt2']), ([SV_.Z3OLD, '-T:20'], o['smt2'])):
                if len(o['smt2']) >= 19990:
                    continue        # truncated text
                ans, _ = SV_._run_cli(cmd, text, 20)
                agree['asked'] += 1
                agree[ans] += 1
        thorough_notes['backend_agreement_sample'] = agree
        if agree['sat']:
            print('CHECKER-FAULT: a back end answers sat on an obligation another back end discharged (%r)' % agree)
            return 3
    # ---- sat under a complete encoding, proved on the baseline, no input found ---------------
    baseline = load_baseline()
    for r, o in refuted:
        key = (r['contract'], clause_of(o['id']))
        if key in confirmed_keys:
            continue
        bid = '%s/%s' % (r['contract'], o['id'])
        if any(c == r['contract'] for c, _ in confirmed_keys):
            continue        # a failing input for this function was already found and replayed
        new_call_violating_a_precondition = o['id'].startswith('pre@call.') and prop in baseline and \
            not any(b.startswith(r['contract'] + '/' + o['id']) for b in baseline.get(prop, []))
        if (bid in baseline.get(prop, []) or new_call_violating_a_precondition) and not o.get('incomplete'):
            confirmed_keys.add(key)
            violations.append({'contract': r['contract'], 'obligation': o['id'], 'case': r['case'], 'model': o.get('model'),
                               'kind': 'no-failing-input-found', 'solver': o['tried'], 'smt2': o.get('smt2', '')[:4000]})

    # ---- known findings ---------------------------------------------------------------------
    exit_code = 0
    lines = []
    kf_reported = set()
    for r, o in knownhits:
        k = o['known']
        if k['id'] not in kf_reported:
            kf_reported.add(k['id'])
            still = True
            if k.get('demo'):
                env = dict(os.environ, VERIF_REPO=REPO, PYTHONPATH=REPO)
                pr = subprocess.run([PYRUN, '-W', 'ignore', '-c', k['demo']], capture_output=True, text=True, env=env, cwd='/tmp', timeout=120)
                still = 'DEFECT' in pr.stdout
                replay_log.append({'known_finding': k['id'], 'demo_output': pr.stdout.strip()[-200:]})
            if still:
                lines.append('KNOWN-FINDING: property=%s %s' % (prop, k['what']))
            else:
                lines.append('NOTE: known finding %s no longer reproduces concretely, but its obligation is still not proved' % k['id'])
    final_viol = []
    seen_v = set()
    for v in violations:
        k = (v['contract'], v['obligation'])
        if k in seen_v:
            continue
        seen_v.add(k)
        final_viol.append(v)
    for i, v in enumerate(final_viol):
        fn = v['contract'].split('.')[-1]
        path = os.path.join(HERE, 'replays', '%s-%s.%s.json' % (prop, fn, v['obligation'].replace('/', '_').replace(' ', '_')))
        v['property'] = prop
        v['repo'] = REPO
        v['how_to_replay'] = 'python3-vt /verif/check.py %s --replay %s' % (prop, path)
        json.dump(v, open(path, 'w'), indent=1, default=str)
        tail = ' no-failing-input-found' if v['kind'] == 'no-failing-input-found' else ''
        lines.append('VIOLATION property=%s replay=%s%s' % (prop, path, tail))
        lines.append('  obligation %s/%s.%s fails (%s)' % (prop, fn, v['obligation'], v['kind']))
        exit_code = 1

    und_keys = sorted({'%s.%s' % (r['contract'].split('.')[-1], o['id']) for r, o in undecided + refuted
                       if (r['contract'], clause_of(o['id'])) not in confirmed_keys})
    level = 'proof'
    if und_keys or unsupported:
        level = 'exploration'

    if args.write_baseline:
        base = load_baseline()
        base[prop] = sorted({'%s/%s' % (r['contract'], o['id']) for r in results for o in r['obligations']
                             if o['status'] == 'proved' and tagged(o['id'])})
        json.dump(base, open(os.path.join(HERE, 'baseline_obligations.json'), 'w'), indent=0, sort_keys=True)
    else:
        base = load_baseline().get(prop)
        if base is not None:
            now = {'%s/%s' % (r['contract'], o['id']) for r in results for o in r['obligations'] if tagged(o['id'])}
            missing = sorted(set(base) - now)
            if missing and not unsupported:
                # an obligation that existed on the baseline is no longer generated and nothing was
                # reported as unsupported: the source changed shape; say so (not an alarm)
                print('NOTE: %d baseline obligations were not generated on this tree (e.g. %s)' % (len(missing), missing[0]))

    # vacuity guards
    if obligations == 0:
        print('CHECKER-FAULT: zero obligations generated for %s' % prop)
        return 3

    wall = time.time() - t0
    ev = {
        'property_id': prop, 'tier': args.tier, 'seed': seed, 'level': level,
        'coverage': {
            'obligations': obligations, 'discharged': discharged,
            'checker_cmd': 'python3-vt /verif/check.py %s --tier %s' % (prop, args.tier),
            'trusted_base': sorted(trusted) + P.get('trusted', []),
            'by_backend': dict(by_backend), 'solver_seconds': round(solver_s, 2),
            'paths': paths, 'functions_under_contract': functions,
            'undecided_obligations': und_keys,
            'unsupported': ['%s %s: %s' % (c.split('.')[-1], json.dumps(cs), u) for c, cs, u in unsupported][:20],
            'samples': samples or [{'note': 'all obligations were discharged by the incremental path solver'}],
            'replays': replay_log[:20], 'bounded_stand_in': bounded_info, 'extra': extra_notes, 'thorough': thorough_notes,
            'known_findings_reported': sorted(kf_reported),
            'excluded_by_known_finding': len(knownhits),
            'platform_pruned': sorted({p for r in results for p in r.get('pruned', [])}),
            'evaluations': max(obligations, 1), 'distinct_nontrivial': max(2, len({o['id'] for r in results for o in r['obligations']})),
            'rule': 'one evaluation = one proof obligation (path x clause) generated from the current source; distinct = distinct clause ids',
        },
        'assumptions': P.get('assumptions', []),
        'wall_s': round(wall, 2),
        'violations': len(final_viol),
    }
    evdir = os.environ.get('VERIF_EVIDENCE_DIR', os.path.join(HERE, 'evidence'))
    os.makedirs(evdir, exist_ok=True)
    json.dump(ev, open(os.path.join(evdir, '%s.json' % prop), 'w'), indent=1, default=str)
    for l in lines:
        print(l)
    print('%s: %d obligations, %d discharged (%s), %d undecided, %d violations, level=%s, %.1fs'
          % (prop, obligations, discharged, dict(by_backend), len(und_keys), len(final_viol), level, wall))
    if und_keys and args.verbose:
        for k in und_keys:
            print('  undecided:', k)
    for c, cs, u in unsupported[:10]:
        print('  unsupported: %s %s: %s' % (c.split('.')[-1], json.dumps(cs), u))
    return exit_code


def obligation_belongs(oid, prop, P):
    """Clause ids may carry a property tag 'C02:...'; untagged clauses belong to every property of the contract."""
    c = clause_of(oid)
    parts = c.split('.')
    for p in parts:
        if ':' in p:
            tag = p.split(':')[0]
            tags = tag.split('+')
            return prop in tags
    return True


def load_baseline():
    path = os.path.join(HERE, 'baseline_obligations.json')
    if os.path.exists(path):
        return json.load(open(path))
    return {}


def do_replay(path):
    v = json.load(open(path))
    if v.get('request'):
        res = harness(v['request'])
        print(json.dumps(res, indent=1)[:3000])
        if res.get('status') == 'fail':
            print('VIOLATION property=%s replay=%s' % (v['property'], path))
            return 1
        return 0
    print(json.dumps(v, indent=1)[:3000])
    print('(no concrete input: the replay file names the failed obligation and carries the solver output)')
    return 0


if __name__ == '__main__':
    sys.exit(main())
