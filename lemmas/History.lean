/-
  The two meta-steps that leave the SMT solver (DESIGN.md 5.6).  No pexpect-specific content.

  1. modular induction: an invariant established initially and preserved by every operation whose
     precondition holds is true after every finite sequence of operations.
  2. chunk independence of a fold: feeding xs ++ ys is feeding xs, then ys.
-/

theorem invariant_after_history {State Op : Type} (I : State → Prop) (Pre : Op → State → Prop)
    (step : Op → State → State)
    (hstep : ∀ op s, I s → Pre op s → I (step op s)) :
    ∀ (ops : List Op) (s : State), I s →
      (∀ (pre : List Op) (op : Op) (post : List Op), ops = pre ++ op :: post →
          Pre op (pre.foldl (fun st o => step o st) s)) →
      I (ops.foldl (fun st o => step o st) s) := by
  intro ops
  induction ops with
  | nil => intro s hs _; simpa using hs
  | cons op rest ih =>
    intro s hs hpre
    simp only [List.foldl_cons]
    apply ih
    · apply hstep
      · exact hs
      · have := hpre [] op rest (by simp)
        simpa using this
    · intro pre o post h
      have := hpre (op :: pre) o post (by simp [h])
      simpa using this

theorem fold_chunk_independent {State Sym : Type} (f : State → Sym → State) (s : State) (xs ys : List Sym) :
    (xs ++ ys).foldl f s = ys.foldl f (xs.foldl f s) := by
  simp [List.foldl_append]
